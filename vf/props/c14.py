"""C14 - CAN messages that do not fit a frame are rejected, never truncated."""

import os
import re
import shutil
import sys

from .. import env
from ..gen import schema as S, cansch, shapes
from ..mon import audit
from ..ref import dbcread
from . import codec_common as CC

PROPERTY = "C14"
LEVEL = "exploration"
RULE = (
    "Negative: CAN bindings of 65..72 and {80, 96, 127, 128, 129, 200} bits with the excess in the "
    "first / middle / last scalar, a nested struct, an (unrolled) array or an enum, and CAN bindings "
    "with a str / dynamic array / optional at every field position, inside nested structs and arrays; "
    "alone and mixed with 1-3 well-formed bindings, also as renamed bindings (impl can for S as Name) and "
    "through a GeneratorManager that has already served a dbc request.  fcp_dbc.Generator().generate must fail "
    "(exception or Err); GeneratorManager.generate('can_c') must fail and leave the output directory "
    "untouched (audit-hook event log + snapshot).  Positive (57..64 bits and random fitting CAN "
    "schemas): both generators succeed and every generated DBC (read by cantools and by the own "
    "reader) and every generated *_can.c (decode/encode macros, .dlc) is scanned: no signal extends "
    "beyond 8*DLC, no two non-multiplexed signals overlap (bit sets computed per DBC byte-order rules); "
    "the scan also covers schemas with big-endian signals at arbitrary, unaligned positions, which the "
    "generator may refuse but must never emit unsound.  distinct = (size or variable kind, "
    "placement, alone/mixed, generator)."
)
ASSUMPTIONS = [
    "'fail with an error' accepts an exception or an Err value",
    "the C generator's subset is used for the C path: flat structs for the positive scans",
]
SIZES = list(range(57, 73)) + [80, 96, 127, 128, 129, 200]
PLACEMENTS = ["first", "middle", "last", "nested", "array", "enum", "one-bit-elements", "underscore-tail", "array-of-structs"]
VARKINDS = ["str", "dyn", "opt", "dyn-in-nested", "opt-in-array", "str-in-nested"]


def shards(tier):
    return 8 if tier == "quick" else 16


def split_bits(r, total, parts):
    """`parts` (or more) positive integers <= 64 summing to total."""
    parts = max(1, min(parts, total))
    for _ in range(200):
        cuts = sorted(r.sample(range(1, total), parts - 1)) if parts > 1 else []
        out = []
        prev = 0
        for c in cuts + [total]:
            out.append(c - prev)
            prev = c
        if max(out) <= 64:
            return out
        parts = min(total, parts + 1)
    raise RuntimeError("cannot split %d" % total)


def scalar_of(r, w):
    if w > 64:
        return None
    return (r.choice(["u", "i"]), w)


def sized_struct(r, name, total, placement):
    """decls making a struct `name` of exactly `total` bits with the 'excess' located per placement."""
    decls = []
    if placement in ("first", "middle", "last"):
        n = r.randint(2, 5)
        ws = split_bits(r, total, n)
        big = max(range(len(ws)), key=lambda i: ws[i])
        pos = {"first": 0, "middle": len(ws) // 2, "last": len(ws) - 1}[placement]
        ws[big], ws[pos] = ws[pos], ws[big]
        fields = [("f%d" % i, i * 2, scalar_of(r, w)) for i, w in enumerate(ws)]
        if r.random() < 0.3:
            # two fields with the SAME field id (the front end and the general checks accept that): both are
            # part of the message and of its size
            j = r.randrange(1, len(fields))
            fields[j] = (fields[j][0], fields[j - 1][1], fields[j][2])
    elif placement == "nested":
        inner_w = r.randint(max(1, min(total - 1, total - 60)), total - 1)
        iw = split_bits(r, inner_w, min(3, inner_w))
        inner_fields = [("g%d" % i, i, scalar_of(r, w)) for i, w in enumerate(iw)]
        if total > 64 and r.random() < 0.4:
            # an oversize message whose nested struct ALSO has a member that takes no bits (an empty array, u0): the
            # message is as large as its other members
            inner_fields.insert(r.randint(0, len(inner_fields)), ("nothing", 40, r.choice([("arr", ("u", 8), 0), ("u", 0), ("arr", ("arr", ("i", 4), 0), 2)])))
        decls.append(shapes.mk_struct(name + "In", inner_fields))
        rest = total - inner_w
        fields = [("n", 1, ("struct", name + "In"))]
        if rest:
            rw = split_bits(r, rest, 1)
            fields += [("r%d" % i, 5 + i, scalar_of(r, w)) for i, w in enumerate(rw)]
    elif placement == "array":
        n = r.choice([2, 3, 4, 5, 8])
        w = max(1, min(64, total // n))
        rest = total - n * w
        fields = [("arr", 0, ("arr", (r.choice(["u", "i"]), w), n))]
        while rest > 0:
            x = min(rest, 64)
            # (beyond 64 bits the sibling is sometimes NAMED like an unrolled element of the array)
            fields.append((("arr_1" if total > 64 and len(fields) == 1 and r.random() < 0.4 else "r%d" % len(fields)), 10 + len(fields), ("u", x)))
            rest -= x
    elif placement == "array-of-structs":
        # an array of structs (two or more elements) FOLLOWED by further fields, and a nested struct that holds such
        # an array followed by a field of its own
        n = r.choice([2, 2, 3, 4])
        ew = max(2, min(30, (total - 2) // (n + 1)))
        a = r.randint(1, ew - 1)
        decls.append(shapes.mk_struct(name + "El", [("p", 0, ("u", a)), ("q", 1, ("i", ew - a))]))
        rest = total - n * ew
        if r.random() < 0.5 and rest >= 2:
            inner_tail = r.randint(1, min(rest - 1, 16))
            decls.append(shapes.mk_struct(name + "Hold", [("els", 0, ("arr", ("struct", name + "El"), n)), ("after", 1, ("u", inner_tail))]))
            fields = [("h", 0, ("struct", name + "Hold"))]
            rest -= inner_tail
        else:
            fields = [("els", 0, ("arr", ("struct", name + "El"), n))]
        i = 0
        while rest > 0:
            x = min(rest, r.randint(1, 64))
            fields.append(("t%d" % i, 5 + i, (r.choice(["u", "i"]), x)))
            rest -= x
            i += 1
    elif placement == "one-bit-elements":
        # ONE array of `total` elements of a one-bit type (u1, i1, an enum with one or two enumerators), flat or
        # as rows: however many elements, each is one bit of the message
        kind = r.choice(["u1", "i1", "enum1", "enum0", "rows", "single-row"])
        if kind in ("enum1", "enum0"):
            decls.append(shapes.mk_enum(name + "Sw", 1 if kind == "enum1" else 0))
            el = ("enum", name + "Sw")
        else:
            el = ("i", 1) if kind == "i1" else ("u", 1)
        if kind == "rows" and total % 2 == 0:
            t = ("arr", ("arr", el, total // 2), 2)
        elif kind == "single-row":
            t = ("arr", ("arr", el, total), 1)
        else:
            t = ("arr", el, total)
        fields = [("bits", 0, t)]
    elif placement == "underscore-tail":
        # names say nothing about size: the trailing fields - and so every bit beyond the 64th - are written the way
        # padding is by convention (_reserved, _pad, __), as scalars, an array, or inside a trailing nested struct
        head = min(total - 1, r.choice([8, 32, 56, 63, 64])) if total > 1 else 0
        tail = total - head
        fields = []
        if head:
            for i, w in enumerate(split_bits(r, head, min(head, r.randint(1, 3)))):
                fields.append(("h%d" % i, i, scalar_of(r, w)))
        how = r.choice(["scalars", "array", "nested"])
        if how == "array" and tail >= 2:
            n = r.choice([k for k in (2, 3, 4, 8) if k <= tail])
            w = min(64, tail // n)
            fields.append(("_pad", 20, ("arr", ("u", w), n)))
            tail -= n * w
        elif how == "nested" and tail >= 2:
            iw = split_bits(r, tail, min(tail, r.randint(1, 2)))
            if all(w <= 64 for w in iw):
                decls.append(shapes.mk_struct(name + "Tail", [("x", 0, ("u", iw[0]))] + [("_unused%d" % i, 1 + i, ("u", w)) for i, w in enumerate(iw[1:])]))
                fields.append((r.choice(["_tail", "tail"]), 20, ("struct", name + "Tail")))
                tail = 0
        i = 0
        while tail > 0:
            x = min(tail, r.randint(1, 64))
            fields.append((["_reserved", "_pad1", "__", "_", "_r2", "_r3", "_r4"][i % 7] if i < 7 else "_r%d" % i, 30 + i, ("u", x)))
            tail -= x
            i += 1
    elif placement == "enum":
        mx = r.choice([1, 5, 255, 256, 70000])
        ew = max(1, mx.bit_length())
        decls.append(shapes.mk_enum(name + "En", mx))
        rest = total - ew
        fields = [("e", 3, ("enum", name + "En"))]
        i = 0
        while rest > 0:
            x = min(rest, r.randint(1, 64))
            fields.append(("r%d" % i, 10 + i, (r.choice(["u", "i"]), x)))
            rest -= x
            i += 1
        r.shuffle(fields)
    decls.append(shapes.mk_struct(name, fields))
    return decls


def variable_struct(r, name, kind):
    decls = []
    base = [("a", 0, ("u", r.randint(1, 16))), ("b", 1, ("i", r.randint(1, 16))), ("c", 2, ("u", 8))]
    pos = r.randint(0, len(base))
    if kind == "str":
        bad = ("v", 7, ("str",))
    elif kind == "dyn":
        bad = ("v", 7, ("dyn", ("u", r.randint(1, 8))))
    elif kind == "opt":
        bad = ("v", 7, ("opt", ("u", r.randint(1, 8))))
    elif kind == "opt-in-array":
        bad = ("v", 7, ("arr", ("opt", ("u", 3)), 2))
    else:
        inner_bad = {"dyn-in-nested": ("dyn", ("u", 4)), "str-in-nested": ("str",)}[kind]
        decls.append(shapes.mk_struct(name + "In", [("p", 0, ("u", 4)), ("q", 1, inner_bad)]))
        bad = ("v", 7, ("struct", name + "In"))
    base.insert(pos, bad)
    decls.append(shapes.mk_struct(name, base))
    return decls, pos


def can_impl(name, fid, device="ecu", alias=None):
    return {"kind": "impl", "protocol": "can", "type": name, "name": alias, "items": [("field", "id", fid), ("field", "device", ("s", device))]}


def good_bindings(r, k, start_id):
    decls = []
    for j in range(k):
        n = "Good%d" % j
        ws = split_bits(r, r.randint(8, 64), r.randint(1, 4))
        decls.append(shapes.mk_struct(n, [("k%d_%d" % (j, i), i, (r.choice(["u", "i"]), w)) for i, w in enumerate(ws)]))
        decls.append(can_impl(n, start_id + j))
    return decls


def attempt_dbc(fcp):
    import fcp_dbc

    try:
        out = fcp_dbc.Generator().generate(fcp, {"output": "out"})
    except Exception as e:
        return ("raised", e)
    if type(out).__name__ == "Err":
        return ("err", out)
    return ("files", list(out))


def attempt_c(fcp, root, warm_up=None):
    """warm_up: a tree on which the SAME GeneratorManager first runs the dbc generator (into a scratch
    directory, result ignored) before it is asked for can_c - a long-lived manager serving several
    generate requests."""
    from fcp.codegen import GeneratorManager
    from fcp.verifier import make_general_verifier

    manager = GeneratorManager(make_general_verifier())
    if warm_up is not None:
        try:
            manager.generate("dbc", None, None, warm_up, os.path.join(root, "warmup"))
        except Exception:
            pass
        shutil.rmtree(os.path.join(root, "warmup"), ignore_errors=True)
    out_dir = os.path.join(root, "out")
    if os.path.exists(out_dir):
        shutil.rmtree(out_dir)
    os.makedirs(out_dir)
    open(os.path.join(out_dir, "keep.txt"), "w").write("keep\n")
    before = audit.snapshot(out_dir)
    raised = None
    res = None
    with audit.Recorder() as rec:
        try:
            res = manager.generate("can_c", None, None, fcp, out_dir)
        except Exception as e:
            raised = e
    after = audit.snapshot(out_dir)
    muts = [e for e in rec.mutations() if e[1] and "__pycache__" not in e[1] and not e[1].endswith(".pyc")]
    return res, raised, before, after, muts, out_dir


def dbc_signal_bits(start, length, little):
    """Set of frame bit numbers (DBC numbering: byte*8 + bit) a signal occupies.  Little endian:
    start is the LSB, bits ascend.  Big endian (Motorola): start is the MSB, the signal runs down to
    bit 0 of its byte and continues at bit 7 of the next byte."""
    if little:
        return set(range(start, start + length))
    bits = set()
    b = start
    for _ in range(length):
        bits.add(b)
        b = b + 15 if b % 8 == 0 else b - 1
    return bits


def scan_dbc(run, contents, case):
    """Extent / overlap invariant on one DBC text, with both readers."""
    import cantools

    mine = dbcread.read(contents)
    try:
        db = cantools.database.load_string(contents, "dbc")
    except Exception as e:
        # cantools validates extents/overlaps when loading: a DBC it refuses for that reason is unsound
        msg = str(e)
        if "overlapping" in msg or "does not fit" in msg or "outside" in msg:
            run.violation("generated DBC is unsound (independent reader refuses it): %s" % msg[:200], case)
        else:
            run.violation("generated DBC cannot be loaded by an independent reader: %s" % msg[:200], case)
        return False
    for m in db.messages:
        own = mine[m.frame_id]
        if m.length > 8:
            run.violation("generated DBC describes message %s with %d bytes: it does not fit a CAN frame" % (m.name, m.length), case)
            return False
        sigs = []
        for s in m.signals:
            o = own["signals"][s.name]
            if (o["start"], o["length"]) != (s.start, s.length):
                run.inconclusive_because("DBC readers disagree on signal %s" % s.name)
                return False
            bits = dbc_signal_bits(s.start, s.length, s.byte_order == "little_endian")
            if min(bits) < 0 or max(bits) >= 8 * m.length:
                run.violation("DBC signal %s of %s covers frame bits %d..%d, the message has %d bytes" % (s.name, m.name, min(bits), max(bits), m.length), case)
                return False
            sigs.append((bits, s.name, s.multiplexer_ids))
        for i in range(len(sigs)):
            for j in range(i + 1, len(sigs)):
                (ab, an, am), (bb, bn, bm) = sigs[i], sigs[j]
                if ab & bb and not (am and bm):
                    run.violation("DBC signals %s and %s of %s overlap (frame bits %s)" % (an, bn, m.name, sorted(ab & bb)[:8]), case)
                    return False
        run.count("dbc_messages_scanned")
    return True


DEC = re.compile(r"#define can_decode_signal_(\w+)\(msg\)\s*\\\s*\n\s*can_decode_signal_as_(\w+)\(\(msg\), (\d+), (\d+),")
ENC = re.compile(r"#define can_encode_signal_(\w+)\(signal\)\s*\\\s*\n\s*can_encode_signal_from_(\w+)\(\(signal\), (\d+), (\d+),")
FRAME = re.compile(r"CanFrame can_encode_msg_(\w+)\(const CanMsg\w+ \*msg[^)]*\) \{\s*CanFrame message = \{\.id = (\d+), \.dlc = (\d+)\};")


def scan_c(run, source, case):
    msgs = {m.group(1): (int(m.group(2)), int(m.group(3))) for m in FRAME.finditer(source)}
    if not msgs:
        run.inconclusive_because("no encode functions found in generated C (scanner out of date)")
        return False
    n = 0
    for rx in (DEC, ENC):
        per = {}
        for m in rx.finditer(source):
            full, start, length = m.group(1), int(m.group(3)), int(m.group(4))
            owner = max((k for k in msgs if full.startswith(k + "_")), key=len, default=None)
            if owner is None:
                run.inconclusive_because("macro %s belongs to no message (scanner out of date)" % full)
                return False
            per.setdefault(owner, []).append((start, start + length, full))
            n += 1
        for owner, sigs in per.items():
            dlc = msgs[owner][1]
            if dlc > 8:
                run.violation("generated C describes message %s with DLC %d: it does not fit a CAN frame" % (owner, dlc), case)
                return False
            sigs.sort()
            for s0, s1, nm in sigs:
                if s1 > 8 * dlc:
                    run.violation("generated C signal %s covers bits %d..%d, DLC is %d" % (nm, s0, s1, dlc), case)
                    return False
            for (a0, a1, an), (b0, b1, bn) in zip(sigs, sigs[1:]):
                if b0 < a1:
                    run.violation("generated C signals %s and %s overlap" % (an, bn), case)
                    return False
            run.count("c_messages_scanned")
    if n == 0:
        run.inconclusive_because("no signal macros found in generated C (scanner out of date)")
        return False
    return True


def loose(run, decls, what, root):
    """Generation may succeed or fail; whatever is emitted must pass the extent / overlap scanners."""
    text = S.print_schema(decls)
    case = {"schema": text, "what": what}
    res = CC.parse(text)
    if res.is_err():
        run.violation("front end rejected the schema: %r" % (res.err(),), case)
        return
    kind, out = attempt_dbc(res.unwrap())
    if kind == "files":
        for f in out:
            if not scan_dbc(run, str(f["contents"]), dict(case, dbc=str(f["contents"]))):
                return
    res_c, raised, before, after, muts, out_dir = attempt_c(CC.parse(text).unwrap(), root)
    if raised is None and type(res_c).__name__ == "Ok":
        for fn in sorted(os.listdir(out_dir)):
            if fn.endswith("_can.c"):
                if not scan_c(run, open(os.path.join(out_dir, fn)).read(), dict(case, file=fn)):
                    return
    run.count("loose_scans")
    run.case(sig="loose|" + what.split(" on ")[0][:40] + "|%s|%s" % (kind, type(res_c).__name__))


def judge(run, decls, expect_reject, what, root, scan=True, warm_up=False):
    text = S.print_schema(decls)
    case = {"schema": text, "what": what}
    res = CC.parse(text)
    if res.is_err():
        run.violation("front end rejected the schema: %r" % (res.err(),), case)
        return
    fcp = res.unwrap()
    # ---- DBC
    kind, out = attempt_dbc(fcp)
    run.count("dbc_attempts")
    if expect_reject:
        if kind == "files":
            case["dbc"] = [str(f["contents"])[:2000] for f in out]
            run.violation("DBC generation returned files for a schema with %s" % what, case)
            return
        run.count("dbc_rejections")
    else:
        if kind != "files":
            run.violation("DBC generation failed (%s: %s) although every CAN message fits a frame (%s)" % (kind, out, what), case)
            return
        for f in out:
            if not scan_dbc(run, str(f["contents"]), dict(case, dbc=str(f["contents"]))):
                return
    # ---- C through the generate command path
    warm = CC.parse(text).unwrap() if warm_up else None
    if warm_up:
        run.count("c_attempts_on_a_reused_manager")
    res_c, raised, before, after, muts, out_dir = attempt_c(CC.parse(text).unwrap(), root, warm)
    run.count("c_attempts")
    if expect_reject:
        ok = raised is None and type(res_c).__name__ == "Ok"
        if ok or (raised is None and type(res_c).__name__ not in ("Err",)):
            run.violation("the C generate command returned %r for a schema with %s" % (res_c, what), case)
            return
        if muts or before != after:
            case["events"] = muts[:10]
            run.violation("the C generate command touched the output directory for a rejected schema (%s)" % what, case)
            return
        run.count("c_rejections")
    else:
        if raised is not None or type(res_c).__name__ != "Ok":
            run.violation("the C generate command failed (%r %r) although every CAN message fits (%s)" % (res_c, raised, what), case)
            return
        for fn in sorted(os.listdir(out_dir)):
            if fn.endswith("_can.c"):
                if not scan_c(run, open(os.path.join(out_dir, fn)).read(), dict(case, file=fn)):
                    return
    run.case(sig=what)
    if len(run.samples) < 4 and len(text) < 700 and (expect_reject or "fits" in what):
        run.sample({"schema": text, "what": what, "dbc": kind if expect_reject else "files", "can_c": repr(res_c)[:100] if raised is None else repr(raised)[:100]})


def grown_binding(run, k, root):
    """History: a binding that fits is generated from (DBC and C), then its struct is EDITED IN PLACE on the
    same tree object - a field appended, or an existing field widened - so that the message no longer fits;
    both back ends must then refuse the very tree they accepted a moment ago."""
    from fcp.specs.struct_field import StructField
    from fcp.specs import type as T

    r = run.rng("grown", k)
    ws = split_bits(r, r.randint(40, 64), r.randint(2, 4))
    decls = [shapes.mk_struct("Big", [("f%d" % i, i * 3, (r.choice(["u", "i"]), w)) for i, w in enumerate(ws)]), can_impl("Big", 100)]
    text = S.print_schema(decls)
    case = {"schema": text, "what": "a fitting binding, generated from, then grown in place beyond 64 bits"}
    res = CC.parse(text)
    if res.is_err():
        run.violation("front end rejected the schema: %r" % (res.err(),), case)
        return
    fcp = res.unwrap()
    kind, out = attempt_dbc(fcp)
    res_c, raised, _b, _a, _m, _o = attempt_c(fcp, root)
    if kind != "files" or raised is not None or type(res_c).__name__ != "Ok":
        run.violation("a binding of %d bits was refused (dbc: %s, can_c: %r %r)" % (sum(ws), kind, res_c, raised), case)
        return
    st = fcp.get_struct("Big").unwrap()
    if k % 2:
        extra = 65 - sum(ws) + r.randint(0, 30)
        st.fields.append(StructField("grown", 99, T.UnsignedType("u%d" % min(64, extra))))
        case["edit"] = "appended grown @99: u%d" % min(64, extra)
    else:
        st.fields[0].type = T.UnsignedType("u%d" % min(64, ws[0] + 65 - sum(ws)))
        case["edit"] = "f0 widened to %s" % st.fields[0].type.name
    kind, out = attempt_dbc(fcp)
    if kind == "files":
        case["dbc"] = [str(f["contents"])[:1500] for f in out]
        run.violation("DBC generation returned files for a binding that was grown beyond 64 bits on the tree it had accepted before", case)
        return
    res_c, raised, before, after, muts, _o = attempt_c(fcp, root)
    if raised is None and type(res_c).__name__ == "Ok":
        run.violation("the C generate command accepted a binding that was grown beyond 64 bits on the tree it had accepted before", case)
        return
    if muts or before != after:
        run.violation("the C generate command touched the output directory for the grown (rejected) binding", case)
        return
    run.count("grown_bindings_refused")
    run.case(sig="grown|%s" % ("append" if k % 2 else "widen"))


def run(run):
    sys.dont_write_bytecode = True
    root = env.scratch("c14")
    try:
        idx = 0
        reps = run.pick(3, 20)
        for rep in range(reps):
            for total in SIZES:
                for placement in PLACEMENTS:
                    idx += 1
                    if not run.mine(idx):
                        continue
                    r = run.rng("size", rep, total, placement)
                    if placement == "enum" and total > 129:
                        continue
                    decls = sized_struct(r, "Big", total, placement)
                    mixed = r.random() < 0.5
                    alias = "BigFrame" if r.random() < 0.35 else None
                    binding = can_impl("Big", 0 if r.random() < 0.25 else 100, alias=alias)  # frame id 0 is an id
                    muxed = ""
                    scal = [f for f in decls[-1]["fields"] if f["type"][0] in ("u", "i")]
                    cands = [f for f in scal if f["type"][0] == "u" and 2 <= f["type"][1] <= 8]
                    if cands and len(scal) >= 2 and r.random() < 0.6:
                        # multiplexed signals: the layout (and so the size) is the same with or without them
                        m = r.choice(cands)
                        for f in r.sample([o for o in scal if o is not m], r.randint(1, min(3, len(scal) - 1))):
                            binding["items"].append(("signal", f["name"], [("mux_count", r.randint(1, min(16, 1 << m["type"][1]))), ("mux_signal", ("s", m["name"]))]))
                        muxed = ", multiplexed signals"
                    body = decls + [binding]
                    if mixed:
                        g = good_bindings(r, r.randint(1, 3), 200)
                        body = g + body if r.random() < 0.5 else body + g
                    klass = "fits" if total <= 64 else "oversize"
                    judge(run, body, total > 64, "%s %d bits, excess in %s, %s%s%s" % (klass, total, placement, "mixed" if mixed else "alone", ", binding renamed" if alias else "", muxed), root, warm_up=(idx % 3 == 0))
            for kind in VARKINDS:
                for k in range(run.pick(2, 6)):
                    idx += 1
                    if not run.mine(idx):
                        continue
                    r = run.rng("var", rep, kind, k)
                    decls, pos = variable_struct(r, "Var", kind)
                    mixed = r.random() < 0.5
                    body = decls + [can_impl("Var", 100)]
                    if mixed:
                        g = good_bindings(r, r.randint(1, 3), 200)
                        body = g + body if r.random() < 0.5 else body + g
                    judge(run, body, True, "variable-size field (%s) at position %d, %s" % (kind, pos, "mixed" if mixed else "alone"), root)
        for k in range(run.pick(16, 160)):
            idx += 1
            if run.mine(idx):
                grown_binding(run, k, root)
        # two CAN bindings under ONE name for different structs: the first fits, the second does not (or is
        # variable-size) - each binding is measured on its own
        for k in range(run.pick(12, 120)):
            idx += 1
            if not run.mine(idx):
                continue
            r = run.rng("same-name", k)
            if k % 3:
                big = sized_struct(r, "Big", r.choice([65, 72, 80, 96]), r.choice(["first", "last", "array"]))
                what = "an oversize binding sharing its name with a fitting binding of another struct"
            else:
                big, _pos = variable_struct(r, "Big", r.choice(["str", "opt", "dyn-in-nested"]))
                what = "a variable-size binding sharing its name with a fitting binding of another struct"
            good = good_bindings(r, 1, 200)
            good[-1]["name"] = "Shared"
            body = good + big + [can_impl("Big", 100, alias="Shared")]
            judge(run, body, True, what, root)
        # big-endian signals at arbitrary (also unaligned) positions and widths: generation may refuse
        # them; whatever it does emit must still keep every signal inside its message and apart
        n_be = run.pick(120, 2000)
        for i in range(n_be):
            idx += 1
            if not run.mine(idx):
                continue
            r = run.rng("bigendian", i)
            decls = cansch.gen_can_schema(r, prefix="E", flat=True, big_endian=False, mux=False, devices=True, floats=False, buses=True)
            decls = [d for d in decls if not (d["kind"] == "impl" and d["protocol"] != "can")]
            sdecl = {d["name"]: d for d in decls if d["kind"] == "struct"}
            for d in decls:
                if d["kind"] == "impl":
                    for f in sdecl[d["type"]]["fields"]:
                        if f["type"][0] in ("u", "i") and r.random() < 0.5:
                            d["items"].append(("signal", f["name"], [("endianess", ("s", "big"))]))
            text = S.print_schema(decls)
            res = CC.parse(text)
            if res.is_err():
                run.violation("front end rejected the schema: %r" % (res.err(),), {"schema": text})
                continue
            kind, out = attempt_dbc(res.unwrap())
            run.count("bigendian_attempts")
            if kind == "files":
                ok = True
                for f in out:
                    if not scan_dbc(run, str(f["contents"]), {"schema": text, "what": "big-endian signals at arbitrary positions", "dbc": str(f["contents"])}):
                        ok = False
                        break
                if ok:
                    run.count("bigendian_emitted_and_sound")
                    run.case(sig="big-endian|emitted|%d" % (i % 40))
            else:
                run.count("bigendian_refused")
                run.case(sig="big-endian|refused|%s" % type(out).__name__)
        # oversize bindings on a protocol that is merely SPELLED like can ("CAN", "Can"): whether or not a
        # back end treats them as CAN bindings, nothing it emits may describe a message beyond 64 bits
        for k, proto in enumerate(["CAN", "Can", "cAn"] * run.pick(1, 4)):
            idx += 1
            if not run.mine(idx):
                continue
            r = run.rng("protocase", k)
            total = r.choice([65, 66, 70, 72, 96])
            decls = sized_struct(r, "Big", total, r.choice(["first", "last", "array"]))
            b = can_impl("Big", 100)
            b["protocol"] = proto
            body = good_bindings(r, 2, 200) + decls + [b]
            loose(run, body, "oversize %d bits on protocol spelled %s" % (total, proto), root)
        # signal blocks with the documented 'bitstart' key (any value): the layout is fixed by the field
        # ids, so the emitted signals must still be inside the message and apart
        for k in range(run.pick(40, 600)):
            idx += 1
            if not run.mine(idx):
                continue
            r = run.rng("bitstart", k)
            decls = cansch.gen_can_schema(r, prefix="P", flat=True, big_endian=False, mux=False, devices=True, floats=True, buses=True)
            decls = [d for d in decls if not (d["kind"] == "impl" and d["protocol"] != "can")]
            sdecl = {d["name"]: d for d in decls if d["kind"] == "struct"}
            for d in decls:
                if d["kind"] == "impl":
                    for f in r.sample(sdecl[d["type"]]["fields"], min(2, len(sdecl[d["type"]]["fields"]))):
                        d["items"].append(("signal", f["name"], [("bitstart", r.choice([0, 1, 8, 56, 60, 63, 64, 70, 100]))]))
            loose(run, decls, "signal blocks with a bitstart key", root)
        # positive scans over random fitting flat CAN schemas (the C generator's subset)
        n = run.pick(150, 2500)
        for i in range(n):
            idx += 1
            if not run.mine(idx):
                continue
            r = run.rng("fit", i)
            decls = cansch.gen_can_schema(r, prefix="F", flat=True, big_endian=False, mux=False, devices=True, floats=True, buses=True)
            decls = [d for d in decls if not (d["kind"] == "impl" and d["protocol"] != "can")]
            judge(run, decls, False, "random fitting schema (scan)", root)
    finally:
        shutil.rmtree(root, ignore_errors=True)


def conclude(run):
    run.require("grown_bindings_refused", "dbc_attempts", "dbc_rejections", "c_attempts", "c_rejections", "dbc_messages_scanned", "c_messages_scanned", "c_attempts_on_a_reused_manager", "loose_scans")


def replay(run, case):
    sys.dont_write_bytecode = True
    root = env.scratch("c14r")
    try:
        what = case["what"]
        text = case["schema"]
        res = CC.parse(text)
        if res.is_err():
            run.violation("schema rejected by the front end", case)
            return
        expect = what.startswith(("oversize", "variable"))
        kind, out = attempt_dbc(res.unwrap())
        if expect and kind == "files":
            run.violation("DBC generation returned files for %s" % what, case)
        elif not expect and kind != "files":
            run.violation("DBC generation failed for %s" % what, case)
        res_c, raised, before, after, muts, out_dir = attempt_c(CC.parse(text).unwrap(), root)
        if expect and (raised is None and type(res_c).__name__ == "Ok" or muts or before != after):
            run.violation("C generate command accepted / wrote for %s" % what, case)
        elif not expect and (raised is not None or type(res_c).__name__ != "Ok"):
            run.violation("C generate command failed for %s" % what, case)
    finally:
        shutil.rmtree(root, ignore_errors=True)
