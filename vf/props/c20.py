"""C20 - module imports are transparent."""

import copy
import json
import os
import re
import shutil

from .. import env
from ..gen import schema as S, descr
from ..mon.reach import Reach
from . import parse_common as PC

PROPERTY = "C20"
LEVEL = "exploration"
RULE = (
    "Random schema descriptions (all declaration kinds) are split into a tree of module files: a "
    "random dependency-closed subset of the declarations moves into a module imported where the "
    "first moved declaration stood; recursively to depth 3; module paths are plain or dotted "
    "(sub-directories, resolved relative to the importing file; several modules may share a file name "
    "in different directories; some files are saved with CRLF line endings; every tenth case also splits 9-16 declarations into one module file each; for every sixth schema the single file and every file of the split are saved with a UTF-8 byte order mark (both must get the same verdict and tree); a quarter of the schemas declares "
    "some name twice, which the parser accepts).  Oracle: get_fcp(root).to_dict() has "
    "the same structs, enums, bindings (incl. default ones), services and devices as the single-file "
    "text (compared per kind as multisets; ordered equality with the inlined order is recorded).  "
    "Fault injection into one module of the tree: syntax error, EOF, wrong version, unknown type, "
    "out-of-domain literal, missing nested module file -> must be Err (no exception) whose message "
    "chain / diagnostic names the module file (resp. the missing file) and cites existing lines.  "
    "distinct = (set of declaration kinds moved, tree depth, dotted or plain, fault kind)."
)
ASSUMPTIONS = [
    "each declaration lives in exactly one file; modules are dependency-closed (a module cannot see the importer's types)",
    "a module is imported once; self/cyclic imports are outside the quantifier",
]


def shards(tier):
    return 8 if tier == "quick" else 16


def deps_of(d):
    out = set()
    if d["kind"] == "struct":
        for f in d["fields"]:
            for _, n in S.type_refs(f["type"]):
                out.add(n)
    return out


def closed_subset(r, decls, p=0.4):
    idx = set(i for i in range(len(decls)) if r.random() < p)
    if not idx:
        idx = {r.randrange(len(decls))}
    names = {}
    for i, d in enumerate(decls):
        if d["kind"] in ("struct", "enum"):
            names.setdefault(d["name"], i)  # a name declared twice: the first declaration is the one uses refer to
    changed = True
    while changed:
        changed = False
        for i in list(idx):
            for n in deps_of(decls[i]):
                j = names.get(n)
                if j is not None and j not in idx:
                    idx.add(j)
                    changed = True
    return idx


class Tree:
    """A file of the module tree: ordered items, each a declaration or ('mod', path segments, Tree)."""

    def __init__(self, relpath):
        self.relpath = relpath  # path of this file relative to the root directory
        self.items = []

    def inline(self):
        out = []
        for it in self.items:
            if isinstance(it, tuple):
                out += it[2].inline()
            else:
                out.append(it)
        return out

    def files(self):
        yield self
        for it in self.items:
            if isinstance(it, tuple):
                yield from it[2].files()

    def text(self, style=None):
        decls = [({"kind": "mod", "path": it[1]} if isinstance(it, tuple) else it) for it in self.items]
        return S.print_schema(decls, style)

    def depth(self):
        return 1 + max([it[2].depth() for it in self.items if isinstance(it, tuple)] or [0])


def build_tree(r, decls, relpath, depth, counter, same_names=False):
    t = Tree(relpath)
    if depth >= 3 or len(decls) < 2 or (depth > 0 and r.random() < (0.15 if same_names else 0.4)):
        t.items = list(decls)
        return t
    idx = closed_subset(r, decls, 0.4)
    if len(idx) == len(decls) and depth == 0 and r.random() < 0.7 and len(decls) > 1:
        # keep at least something in the root most of the time
        idx = closed_subset(r, decls, 0.2)
    first = min(idx)
    moved = [decls[i] for i in sorted(idx)]
    counter[0] += 1
    c = 1.0 if same_names else r.random()
    stem = os.path.splitext(os.path.basename(relpath))[0]
    if c < 0.12 and depth > 0:
        # the module lives in a directory named like the importing module FILE (m1.fcp imports m1/m2.fcp)
        segs = [stem, "m%d" % counter[0]]
    elif c < 0.24:
        # upper-case letters in file and directory names
        segs = ["Dir%d" % counter[0], "Mod%dX" % counter[0]] if r.random() < 0.5 else ["Mod%dX" % counter[0]]
    elif c < 0.30:
        # module and directory names that are words of the tool's own vocabulary: mod d3.fcp; is the file d3/fcp.fcp
        w = r.choice(["fcp", "mod", "main", "version", "struct", "default", "init", "__init__", "lib"])
        segs = ["d%d" % counter[0], w] if r.random() < 0.7 else [w + "%d" % counter[0], w]
    elif c < 0.45:
        segs = ["m%d" % counter[0]]
    elif c < 0.8:
        segs = ["d%d" % counter[0]] * r.choice([1, 2]) + ["m%d" % counter[0]]
    else:
        # modules in different directories that share a file name (can/types.fcp, lin/types.fcp)
        segs = ["d%d" % counter[0], "types"]
    base = os.path.dirname(relpath)
    child_rel = os.path.join(base, *segs[:-1], segs[-1] + ".fcp")
    child = build_tree(r, moved, child_rel, depth + 1, counter, same_names)
    for i, d in enumerate(decls):
        if i == first:
            t.items.append(("mod", segs, child))
        if i not in idx:
            t.items.append(d)
    return t


def wide_tree(r, i):
    """(decls, tree): 9..16 self-contained declarations, EACH in a module file of its own (flat, or nested
    two per directory level), all imported by the root, which keeps the bindings."""
    n = r.randint(9, 16)
    decls = []
    root = Tree("main.fcp")
    for k in range(n):
        nm = "W%d_%d" % (i, k)
        if k % 4 == 3:
            d = {"kind": "enum", "name": nm, "values": [("A" + nm, 0), ("B" + nm, r.randint(1, 40))]}
        else:
            d = {"kind": "struct", "name": nm, "fields": [{"name": "a%d" % k, "id": 0, "type": ("u", r.randint(1, 32))}, {"name": "b%d" % k, "id": 1, "type": r.choice([("f32",), ("str",), ("i", 9)])}]}
        decls.append(d)
        segs = ["w%d" % k] if k % 3 else ["dir%d" % (k // 3), "w%d" % k]
        child = Tree(os.path.join(*segs[:-1], segs[-1] + ".fcp") if len(segs) > 1 else segs[-1] + ".fcp")
        child.items = [d]
        root.items.append(("mod", segs, child))
    for k in range(0, n, 4):
        b = {"kind": "impl", "protocol": "can", "type": "W%d_%d" % (i, k), "name": None, "items": [("field", "id", k + 1)]}
        decls.append(b)
        root.items.append(b)
    return decls, root


def write_tree(root, tree, style_of=None, crlf=None):
    """crlf: set of relpaths saved with CRLF line endings (files are text: same tree expected)."""
    written = {}
    for f in tree.files():
        p = os.path.join(root, f.relpath)
        os.makedirs(os.path.dirname(p), exist_ok=True)
        txt = f.text(style_of(f) if style_of else None)
        with open(p, "w", newline="") as fh:
            fh.write(txt.replace("\n", "\r\n") if crlf and f.relpath in crlf else txt)
        written[f.relpath] = txt + ("  <saved with CRLF line endings>" if crlf and f.relpath in crlf else "")
    return written


def multiset(lst):
    return sorted(json.dumps(x, sort_keys=True) for x in lst)


def compare_split(run, i, decls, tree, root):
    rc = run.rng("crlf", i)
    crlf = {f.relpath for f in tree.files() if i % 5 == 0 and rc.random() < 0.6}
    if crlf:
        run.count("splits_with_crlf_files")
    files = write_tree(root, tree, lambda f: (S.Style(run.rng("style", i, f.relpath)) if i % 2 else None), crlf)
    case = {"files": files, "single_file": S.print_schema(decls)}
    try:
        res, lg = PC.parse_file(os.path.join(root, "main.fcp"))
    except BaseException as e:
        run.violation("get_fcp raised %s on a split schema: %s" % (type(e).__name__, str(e)[:200]), case)
        return
    run.count("splits_parsed")
    if res.is_err():
        run.violation("split schema rejected: %s" % repr(res.err())[:300], case)
        return
    got = res.unwrap().to_dict()
    exp = S.expected_dict(decls)
    for kind in ("structs", "enums", "impls", "services", "devices"):
        if multiset(got.get(kind, [])) != multiset(exp[kind]):
            import collections

            ce, cg = collections.Counter(multiset(exp[kind])), collections.Counter(multiset(got.get(kind, [])))
            missing = list((ce - cg).elements())
            extra = list((cg - ce).elements())
            case["kind"] = kind
            case["missing"] = missing[:3]
            case["extra"] = extra[:3]
            run.violation("split schema has different %s than the single-file schema (%d missing, %d extra)" % (kind, len(missing), len(extra)), case)
            return
    run.count("splits_equal")
    if got == S.expected_dict(tree.inline()):
        run.count("splits_equal_in_inlined_order")
    moved_kinds = set()
    dotted = False
    for f in tree.files():
        if f.relpath != "main.fcp":
            for it in f.items:
                if not isinstance(it, tuple):
                    moved_kinds.add(it["kind"])
        for it in f.items:
            if isinstance(it, tuple) and len(it[1]) > 1:
                dotted = True
    for k in moved_kinds:
        run.count("moved/" + k)
    run.case(sig="split|%s|depth%d|%s" % (",".join(sorted(moved_kinds)), tree.depth(), "dotted" if dotted else "plain"))
    if len(run.samples) < 2 and sum(len(v) for v in files.values()) < 1200 and len(files) > 2:
        run.sample({"files": files})


def compare_bom(run, i, decls, tree, root):
    """Every file saved with a UTF-8 byte order mark, the way some editors do: whatever the front end
    makes of the mark, it must make the same of it in the root file and in module files - the split
    loads iff the single file loads, and then to the same tree."""
    bom = "\ufeff"
    single_dir = os.path.join(root, "single")
    os.makedirs(single_dir)
    single = S.print_schema(decls)
    with open(os.path.join(single_dir, "main.fcp"), "w", encoding="utf-8", newline="") as fh:
        fh.write(bom + single)
    split_dir = os.path.join(root, "split")
    files = {}
    for f in tree.files():
        p = os.path.join(split_dir, f.relpath)
        os.makedirs(os.path.dirname(p), exist_ok=True)
        with open(p, "w", encoding="utf-8", newline="") as fh:
            fh.write(bom + f.text(None))
        files[f.relpath] = "<UTF-8 byte order mark>" + f.text(None)
    case = {"files": files, "single_file": "<UTF-8 byte order mark>" + single, "what": "every file starts with a UTF-8 byte order mark"}
    out = []
    for d in (single_dir, split_dir):
        try:
            res, lg = PC.parse_file(os.path.join(d, "main.fcp"))
            out.append(res)
        except BaseException as e:
            out.append(e)
    verdicts = ["ok" if (not isinstance(x, BaseException) and x.is_ok()) else "rejected" for x in out]
    run.count("bom_pairs")
    if verdicts[0] != verdicts[1]:
        run.violation("saved with a byte order mark the schema is %s as a single file but %s once split into modules saved the same way" % (verdicts[0], verdicts[1]), case)
        return
    if verdicts[0] == "ok" and multiset_dict(out[0].unwrap().to_dict()) != multiset_dict(out[1].unwrap().to_dict()):
        run.violation("saved with a byte order mark the split schema differs from the single-file schema", case)
        return
    run.count("bom_pairs_%s" % ("equal" if verdicts[0] == "ok" else "both_rejected"))
    run.case(sig="bom|%s|depth%d" % (verdicts[0], tree.depth()))


def multiset_dict(d):
    return {k: multiset(d.get(k, [])) for k in ("structs", "enums", "impls", "services", "devices")}


FAULTS = ["syntax", "eof", "version", "unknown-type", "literal", "missing-nested", "missing-decoy"]


def inject(run, i, tree, root, fault):
    r = run.rng("fault", i, fault)
    mods = [f for f in tree.files() if f.relpath != "main.fcp"]
    if not mods:
        return
    names = [os.path.basename(f.relpath) for f in tree.files()]
    if len(set(names)) != len(names):
        # the logger registers sources by file name: with two modules of the same name the quoted
        # source of a diagnostic is ambiguous - fault injection is limited to unambiguous trees
        return
    victim = r.choice(mods)
    if fault == "missing-decoy":
        deep = [f for f in mods if "/" in f.relpath]
        if deep and r.random() < 0.8:
            victim = r.choice(deep)
    files = write_tree(root, tree)
    restore_cwd = None
    p = os.path.join(root, victim.relpath)
    txt = files[victim.relpath]
    expect_name = os.path.basename(victim.relpath)
    if fault == "syntax":
        pos = r.randrange(len(txt))
        bad = txt[:pos] + r.choice(["}", "{", "@@", ";", "= =", "\x01"]) + txt[pos:]
        if bad == txt:
            return
    elif fault == "eof":
        bad = txt[: r.randrange(max(1, len(txt) - 1))]
    elif fault == "version":
        bad = txt.replace('"3"', r.choice(['"2"', '"4"', '"x"']), 1)
    elif fault == "unknown-type":
        bad = txt + "\nstruct Zq%dX { f @0: Missing%dQ, }\n" % (i, i)
    elif fault == "literal":
        bad = txt + "\n" + r.choice(["enum Ze%d { }" % i, "struct Zs%d { a @1.5: u8, }" % i, 'enum Ze%d { A = "x", }' % i, "struct Zs%d { a @0: u8 | foo(1), }" % i])
    elif fault == "missing-nested":
        bad = txt + "\nmod nowhere%d.gone%d;\n" % (i, i)
        expect_name = "gone%d.fcp" % i
    elif fault == "missing-decoy":
        # the module is missing where the importing file's directory says it should be, while files of the
        # same relative path / name exist in other places a lookup could fall back to (the root schema's
        # directory, the importer's parent directory, the working directory, the bare file name next to the
        # importer): imports are resolved relative to the importing file, so this is still a missing module
        bad = txt + "\nmod nowhere%d.gone%d;\n" % (i, i)
        expect_name = "gone%d.fcp" % i
        right = os.path.normpath(os.path.join(os.path.dirname(p), "nowhere%d" % i, "gone%d.fcp" % i))
        decoy = 'version: "3"\nstruct Decoy%d { a @0: u8, }\n' % i
        cwd_dir = os.path.join(root, "_cwd")
        spots = [os.path.join(root, "nowhere%d" % i, "gone%d.fcp" % i),
                 os.path.join(os.path.dirname(os.path.dirname(p)), "nowhere%d" % i, "gone%d.fcp" % i),
                 os.path.join(cwd_dir, "nowhere%d" % i, "gone%d.fcp" % i),
                 os.path.join(os.path.dirname(p), "gone%d.fcp" % i),
                 os.path.join(root, "gone%d.fcp" % i)]
        os.makedirs(cwd_dir, exist_ok=True)
        for sp in spots:
            sp = os.path.normpath(sp)
            if sp == right or not sp.startswith(root):
                continue
            os.makedirs(os.path.dirname(sp), exist_ok=True)
            open(sp, "w").write(decoy)
            files["<decoy> " + os.path.relpath(sp, root)] = decoy
            run.count("decoy_files_written")
        restore_cwd = os.getcwd()
        os.chdir(cwd_dir)
    open(p, "w").write(bad)
    files[victim.relpath] = bad
    case = {"files": files, "fault": fault, "module": victim.relpath}
    try:
        res, lg = PC.parse_file(os.path.join(root, "main.fcp"))
    except BaseException as e:
        run.violation("%s fault inside module %s raised %s: %s" % (fault, victim.relpath, type(e).__name__, str(e).replace("\n", " ")[:200]), case)
        return
    finally:
        if restore_cwd is not None:
            os.chdir(restore_cwd)
    run.count("faults_injected")
    if fault in ("syntax", "eof"):
        # a random insertion / cut can leave a well-formed (if shorter) module - e.g. a cut at a
        # declaration boundary, '}' inside a comment.  Then there is no error *inside* the module
        # (the importer may still fail because a declaration is gone): judge only real module errors
        try:
            alone, _ = PC.parse_file(p)
        except BaseException:
            alone = None
        if alone is not None and alone.is_ok():
            run.count("faults_that_left_a_valid_module")
            return
    if res.is_ok():
        run.violation("%s fault inside module %s was accepted" % (fault, victim.relpath), case)
        return
    msg = repr(res.err())
    try:
        rendered = PC.ANSI.sub("", lg.error(res.err()))
    except BaseException as e:
        run.violation("rendering the error of a %s fault raised %s: %s" % (fault, type(e).__name__, e), case)
        return
    if expect_name not in msg and expect_name not in rendered:
        case["message"] = msg
        run.violation("error for a %s fault does not name %s: %s" % (fault, expect_name, msg[:300]), case)
        return
    for m in re.finditer(r"\[([^\[\]:\s]+\.fcp):(-?\d+)\]", rendered):
        fname, line = m.group(1), int(m.group(2))
        src = lg.sources.get(fname)
        if src is None or not (1 <= line <= len(src.split("\n"))):
            case["rendered"] = rendered
            run.violation("diagnostic cites %s:%d which does not exist" % (fname, line), case)
            return
    run.count("faults_reported_well")
    run.case(sig="fault|%s|depth%d" % (fault, victim.relpath.count("/") + 1))
    if len(run.samples) < 4 and fault in ("unknown-type", "missing-nested") and sum(len(v) for v in files.values()) < 900:
        run.sample({"fault": fault, "files": files, "error": msg})


def run(run):
    import fcp.parser as P
    import fcp.specs.v2 as V2

    reach = Reach([P, V2]).start()
    tmp = env.scratch("c20")
    try:
        n = run.pick(260, 6000)
        for i in range(n):
            if not run.mine(i):
                continue
            r = run.rng("descr", i)
            decls = descr.gen_description(r, ndecl=(3, 10))
            if i % 4 == 3:
                # the parser accepts schemas that declare a name twice (the verifier rejects them later):
                # a split must keep BOTH declarations, like the single file does
                rd = run.rng("dup", i)
                cands = [d for d in decls if d["kind"] in ("struct", "enum", "impl", "service", "device")]
                for d in rd.sample(cands, min(len(cands), rd.randint(1, 2))):
                    decls.insert(rd.randint(decls.index(d) + 1, len(decls)), copy.deepcopy(d))
                run.count("schemas_with_duplicate_declarations")
            counter = [0]
            tree = build_tree(run.rng("tree", i), decls, "main.fcp", 0, counter)
            if counter[0] == 0:
                continue
            # (every third tree lives below directories with dots in their names: vehicle-1.2/)
            root = os.path.join(tmp, "s%d" % i) if i % 3 else os.path.join(tmp, "s%d.rev-1.2" % i, "v0.9")
            os.makedirs(root)
            compare_split(run, i, decls, tree, root)
            shutil.rmtree(root)
            if i % 6 == 1:
                os.makedirs(root)
                compare_bom(run, i, decls, tree, root)
                shutil.rmtree(root)
            if i % 10 == 7:
                wdecls, wtree = wide_tree(run.rng("wide", i), i)
                os.makedirs(root)
                compare_split(run, i, wdecls, wtree, root)
                shutil.rmtree(root)
                run.count("wide_splits_of_9_to_16_modules")
            for fault in FAULTS:
                if (i + FAULTS.index(fault)) % 3:
                    continue
                os.makedirs(root)
                inject(run, i, tree, root, fault)
                shutil.rmtree(root)
    finally:
        shutil.rmtree(tmp, ignore_errors=True)
        reach.stop()
    run.extra["reach"] = {k: v for k, v in reach.summary(120).items() if k in ("FcpV2Transformer.mod_expr", "FcpV2.merge", "get_fcp", "_get_fcp")}


def conclude(run):
    run.require("wide_splits_of_9_to_16_modules", "bom_pairs", "splits_parsed", "splits_equal", "faults_injected", "faults_reported_well", "decoy_files_written", "splits_with_crlf_files", "schemas_with_duplicate_declarations",
                "moved/struct", "moved/enum", "moved/impl", "moved/service", "moved/device")


def replay(run, case):
    tmp = env.scratch("c20r")
    try:
        if "byte order mark" in case.get("what", ""):
            mark = "<UTF-8 byte order mark>"
            verdicts = []
            for sub, files in (("single", {"main.fcp": case["single_file"]}), ("split", case["files"])):
                for rel, body in files.items():
                    p = os.path.join(tmp, sub, rel)
                    os.makedirs(os.path.dirname(p), exist_ok=True)
                    with open(p, "w", encoding="utf-8", newline="") as fh:
                        fh.write(body.replace(mark, "\ufeff"))
                try:
                    res, lg = PC.parse_file(os.path.join(tmp, sub, "main.fcp"))
                    verdicts.append("ok" if res.is_ok() else "rejected")
                except BaseException:
                    verdicts.append("rejected")
            if verdicts[0] != verdicts[1]:
                run.violation("saved with a byte order mark: single file %s, split %s" % tuple(verdicts), case)
            return
        for rel, body in case["files"].items():
            p = os.path.join(tmp, rel[len("<decoy> "):] if rel.startswith("<decoy> ") else rel)
            os.makedirs(os.path.dirname(p), exist_ok=True)
            open(p, "w").write(body)
        back = os.getcwd()
        if os.path.isdir(os.path.join(tmp, "_cwd")):
            os.chdir(os.path.join(tmp, "_cwd"))
        try:
            res, lg = PC.parse_file(os.path.join(tmp, "main.fcp"))
        except BaseException as e:
            run.violation("raised %s: %s" % (type(e).__name__, e), case)
            return
        finally:
            os.chdir(back)
        if "fault" in case:
            if res.is_ok():
                run.violation("fault accepted", case)
        else:
            if res.is_err():
                run.violation("split schema rejected: %r" % (res.err(),), case)
            else:
                single, _ = PC.parse_string(case["single_file"])
                a, b = res.unwrap().to_dict(), single.unwrap().to_dict()
                for kind in ("structs", "enums", "impls", "services", "devices"):
                    if multiset(a[kind]) != multiset(b[kind]):
                        run.violation("split differs from single file in %s" % kind, case)
                        return
    finally:
        shutil.rmtree(tmp, ignore_errors=True)
