"""C18 - C++ CAN frame wrapper: frames carry the binding's id, bus and size."""

import json
import os
import shutil

from .. import env
from ..gen import schema as S, shapes
from ..ref import codec as ref
from ..native import cpp
from . import cpp_common as PP, codec_common as CC
from .c13 import all_leaves_whole_bytes, K1

PROPERTY = "C18"
LEVEL = "exploration"
RULE = (
    "Same compiled batches as C03/C13; each carries 6-9 CAN bindings named after their struct (<= 64 "
    "bits, payloads that are not byte multiples, struct names of 1-14 characters, ids 0..2047, bus "
    "names of 1-4 characters, several bindings per bus).  Per binding and value (boundary then "
    "random): Can{CanStaticSchema} and Can{CanDynamicSchema}::Encode(name, json) must return sid = "
    "binding id, bus tag = bus NUL-padded to 4, dlc = number of canonical payload bytes, data = those "
    "bytes zero-padded to 8; Decode of that frame must return (binding name, value).  Probe frames "
    "with non-matching (id, bus): unknown id, same id on another bus, bus differing in the last "
    "character, a proper prefix of the bus name, the binding's id with bits 11..15 set (frame ids are 16 bits wide) - must be reported unknown.  Static and dynamic "
    "answers must agree.  One long-lived wrapper object of each kind serves all commands of a batch "
    "(matching frames first, then the same id on other buses); a second CanDynamicSchema object built from an unrelated schema lives in the same process and is used first.  ASan+UBSan throughout (fixed-size bus/data arrays); on the thorough tier "
    "every 8th batch also runs a sample, unsanitized, under valgrind memcheck.  distinct = (binding "
    "shape signature, bus length, value class, probe kind)."
)
ASSUMPTIONS = [
    "bindings are named after their struct and declare a bus of 1-4 characters (the property's quantifier)",
    "the dynamic encoder's payload bytes are subject to known finding cpp-dynamic-encode-unpacked; bindings whose unpacked encoding would exceed 8 bytes are not sent through the dynamic Encode",
]


def shards(tier):
    return 6 if tier == "quick" else 16


def bus_hex(bus):
    return (bus.encode() + b"\0" * 4)[:4].hex()


DECOY_TEXT = 'version: "3"\nstruct Decoy { v @0: u8, }\nimpl can for Decoy { id: 1, bus: "dk", }\nstruct Other { w @0: u16, }\nimpl can for Other { id: 2047, bus: "dk", }\n'


def decoy_reflection(run, b):
    """Reflection binary of a small unrelated schema; the harness builds a second CanDynamicSchema from
    it and uses that object first (two schema objects in one process)."""
    path = os.path.join(b.dir, "decoy.bin")
    try:
        cpp.reflection_binary(CC.parse(DECOY_TEXT).unwrap(), path)
    except Exception as e:
        run.inconclusive_because("cannot produce the decoy reflection: %s: %s" % (type(e).__name__, e))
        return None
    run.count("second_schema_objects")
    return path


def check_batch(run, b, nrand, valgrind=False):
    sch = b.sch
    if not b.can_bindings:
        return
    if b.refl is None:
        run.violation("the Python tool cannot produce the reflection binary", b.case)
        return
    lines = []
    meta = []
    nobus_ids = [i for n, i, bus in b.can_bindings if bus is None]
    bindings = [x for x in b.can_bindings if x[2] is not None and not x[0].startswith("<")]
    for n_, i_, bus_ in b.can_bindings:
        if n_ == "<non-can>":
            frame = "%d %s %d %s" % (i_, bus_hex(bus_), 8, "00" * 8)
            for op in ("CSD", "CDD"):
                lines.append(op + " " + frame)
                meta.append((op + "-unknown", "the (id, bus) of a binding of another protocol", i_, bus_, None, None, 0))
    used = {(i, bus) for _, i, bus in bindings}
    all_buses = sorted({bus for _, _, bus in bindings})
    # workload guards (a widening elsewhere must not silently push these shapes out of the batches)
    if len({i for i, _ in used}) < len(used):
        run.count("batches_with_one_id_on_two_buses")
    if any(bus in ("unkn", "None", "null") for _, bus in used):
        run.count("batches_with_a_sentinel_like_bus_name")
    if any(i == 0 for i, _ in used) and any(i == 2047 for i, _ in used):
        run.count("batches_with_ids_0_and_2047")
    r = run.rng("probes", b.bi)
    for nid in nobus_ids:
        for pbus in all_buses[:2] + ["zz"]:
            frame = "%d %s %d %s" % (nid, bus_hex(pbus), 8, "00" * 8)
            for op in ("CSD", "CDD"):
                lines.append(op + " " + frame)
                meta.append((op + "-unknown", "the id of a binding that declares no bus", nid, pbus, None, None, 0))
    for name, fid, bus in bindings:
        t = ("struct", name)
        for vi, v in enumerate(b.values(run, name, nrand)):
            canon = ref.encode(sch, name, v)
            frame = "%d %s %d %s" % (fid, bus_hex(bus), len(canon), (canon + b"\0" * 8)[:8].hex())
            unpacked = ref.encode_leaf_aligned(sch, name, v)
            lines.append("CSE %s %s" % (name, json.dumps(PP.to_json(sch, t, v))))
            meta.append(("CSE", name, fid, bus, v, canon, vi))
            if len(unpacked) <= 8:
                lines.append("CDE %s %s" % (name, json.dumps(PP.to_json(sch, t, v, True))))
                meta.append(("CDE", name, fid, bus, v, canon, vi))
            else:
                run.count("dynamic_encode_skipped_unpacked_over_8_bytes")
            lines.append("CSD " + frame)
            meta.append(("CSD", name, fid, bus, v, canon, vi))
            lines.append("CDD " + frame)
            meta.append(("CDD", name, fid, bus, v, canon, vi))
        # frames that match no binding
        probes = []
        other = [x for x in all_buses if (fid, x) not in used]
        if other:
            probes.append(("same id, other bus", fid, other[0]))
        unknown_id = next(x for x in range(2046, -1, -1) if all(x != i for _, i, _ in b.can_bindings))
        probes.append(("unknown id", unknown_id, bus))
        last = bus[:-1] + ("z" if bus[-1] != "z" else "y")
        if (fid, last) not in used:
            probes.append(("bus differs in last character", fid, last))
        if len(bus) > 1 and (fid, bus[:-1]) not in used:
            probes.append(("bus is a proper prefix", fid, bus[:-1]))
        if len(bus) < 4 and (fid, bus + "x") not in used:
            probes.append(("bus has an extra character", fid, bus + "x"))
        # identifiers are 16 bits wide in frame_t: the binding's id with any of the bits 11..15 set is
        # another identifier
        for hb in r.sample([0x800, 0x1000, 0x2000, 0x4000, 0x8000, 0xF800], 2):
            if all((fid | hb) != i for _, i, _ in b.can_bindings):
                probes.append(("the binding's id with high bits set (id | 0x%X)" % hb, fid | hb, bus))
        # (bus, id) pairs whose TEXT runs into the binding's when bus name and decimal id are written one
        # after the other: bus "a1" id 2 / bus "a" id 12
        sid_ = str(fid)
        if len(sid_) >= 2 and sid_[1] != "0" and len(bus) < 4 and (int(sid_[1:]), bus + sid_[0]) not in used:
            probes.append(("a digit of the id moved to the end of the bus name", int(sid_[1:]), bus + sid_[0]))
        if len(bus) > 1 and bus[-1].isdigit() and bus[-1] != "0" and int(bus[-1] + sid_) <= 65535 and (int(bus[-1] + sid_), bus[:-1]) not in used:
            probes.append(("the last digit of the bus name moved to the front of the id", int(bus[-1] + sid_), bus[:-1]))
        # a frame that carries no bus tag at all (four NUL bytes), or a tag of blanks: no binding declares that bus
        if (fid, "") not in used:
            probes.append(("the binding's id with an empty bus tag", fid, ""))
        if (fid, "    ") not in used and r.random() < 0.5:
            probes.append(("the binding's id with a bus tag of four blanks", fid, "    "))
        for what, pid, pbus in probes:
            frame = "%d %s %d %s" % (pid, bus_hex(pbus), 8, "00" * 8)
            for op in ("CSD", "CDD"):
                lines.append(op + " " + frame)
                meta.append((op + "-unknown", what, pid, pbus, None, None, 0))
    if valgrind:
        # thorough tier: a sample of the commands through an unsanitized build under valgrind memcheck
        # (uninitialised bytes in the fixed-size bus / data arrays are invisible to ASan)
        from ..mon import sanit

        rc, log = sanit.compile_cxx(["vf_harness.cpp"], "vf_harness_plain", [".", cpp.THIRD], b.dir, flags=sanit.PLAIN_CXX_FLAGS)
        if rc == 0:
            sample = [l for l in lines if l.startswith(("CSE", "CSD", "CDD"))][:150]
            vrc, vout, verr = sanit.valgrind_run(os.path.join(b.dir, "vf_harness_plain"), "".join(l + "\n" for l in sample), b.dir, args=[b.refl])
            run.count("valgrind_runs")
            if vrc == 99:
                run.violation("valgrind memcheck reports an error in the C++ CAN wrappers: %s" % (verr.strip().split("\n")[0][:200]), dict(b.case, valgrind=verr[-2500:]))
                return
            if vrc is None:
                run.inconclusive_because("valgrind timed out")
    outputs, crashes = cpp.run(b.binary, lines, b.dir, reflection=b.refl, other_reflection=decoy_reflection(run, b))
    if PP.report_crashes(run, crashes, lines, b.case, "CAN wrappers"):
        return
    sigs = {n: shapes.shape_sig(sch, n) for n in sch.structs}
    for (op, name, fid, bus, v, canon, vi), out, line in zip(meta, outputs, lines):
        case = dict(b.case, command=line[:1500], output=out, binding=name, bus=bus, frame_id=fid, value=v, canonical=canon)
        o = out[0] if out else None
        if o is None or o == "NODYN":
            run.violation("no answer from the harness for %s" % op, case)
            return
        if op.endswith("-unknown"):
            if o != "UNKNOWN":
                run.violation("%s: a frame with %s (id %d, bus %r) is not reported unknown: %s" % (op[:3], name, fid, bus, o[:120]), case)
                return
            run.count("unknown_frames_rejected")
            run.case(sig="unknown|%s|%s" % (op[:3], name))
            continue
        dyn = op in ("CDE", "CDD")
        if op in ("CSE", "CDE"):
            if not o.startswith("OK "):
                run.violation("%s Encode(%s) answered %s" % ("dynamic" if dyn else "static", name, o[:150]), case)
                return
            _, sid, dlc, bh, dh = o.split()
            if int(sid) != fid:
                run.violation("%s Encode(%s): frame id %s, the binding's id is %d" % ("dynamic" if dyn else "static", name, sid, fid), case)
                return
            if bh != bus_hex(bus):
                run.violation("%s Encode(%s): bus tag %s, the binding's bus is %r (%s)" % ("dynamic" if dyn else "static", name, bh, bus, bus_hex(bus)), case)
                return
            want_data = (canon + b"\0" * 8)[:8].hex()
            if int(dlc) != len(canon) or dh != want_data:
                unpacked = ref.encode_leaf_aligned(sch, name, v)
                if dyn and not all_leaves_whole_bytes(sch, ("struct", name)) and int(dlc) == len(unpacked) and dh == (unpacked + b"\0" * 8)[:8].hex():
                    run.known_finding(K1, "dynamic CAN frame carries the unpacked payload %s (dlc %s) instead of %s (dlc %d)" % (dh, dlc, want_data, len(canon)), {"binding": name, "value": v})
                    continue
                run.violation("%s Encode(%s): dlc %s data %s, canonical payload is %d bytes %s" % ("dynamic" if dyn else "static", name, dlc, dh, len(canon), want_data), case)
                return
            run.count("frames_encoded_ok")
            run.case(sig="%s|bus%d|%s|%s" % (sigs[name], len(bus), CC.value_sig(v), op))
        else:
            if not o.startswith("OK "):
                run.violation("%s Decode of the frame of %s (id %d, bus %r) answered %s" % ("dynamic" if dyn else "static", name, fid, bus, o[:150]), case)
                return
            _, got_name, js = o.split(" ", 2)
            if got_name != name:
                run.violation("%s Decode returned message name %s for the frame of %s" % ("dynamic" if dyn else "static", got_name, name), case)
                return
            try:
                back = PP.from_json(sch, ("struct", name), json.loads(js), dyn)
            except ValueError as e:
                run.violation("%s Decode of %s produced malformed JSON: %s" % ("dynamic" if dyn else "static", name, e), case)
                return
            if not ref.same(back, v):
                case["decoded"] = back
                run.violation("%s Decode of the frame of %s returns a different value" % ("dynamic" if dyn else "static", name), case)
                return
            run.count("frames_decoded_ok")
            run.case(sig="%s|bus%d|%s|%s" % (sigs[name], len(bus), CC.value_sig(v), op))
            if len(run.samples) < 3 and vi == 3 and op == "CDD":
                run.sample({"binding": name, "fields": [(f["name"], S.ptype(f["type"])) for f in sch.structs[name]], "id": fid, "bus": bus, "value": v, "frame": line, "decoded": o})


def run(run):
    n, problems, used = ref.self_check(env.REPO)
    if problems:
        run.inconclusive_because("reference codec fails its self-check: %s" % problems[:2])
        return
    root = env.scratch("c18")
    try:
        nb = run.pick(6, 48)
        for bi in range(nb):
            if not run.mine(bi):
                continue
            b = PP.Batch(run, bi, root)
            if b.ok:
                check_batch(run, b, run.pick(10, 30), valgrind=(not run.quick and bi % 8 == 0))
            b.cleanup()
    finally:
        shutil.rmtree(root, ignore_errors=True)


def conclude(run):
    run.require("batches_with_one_id_on_two_buses", "batches_with_a_sentinel_like_bus_name", "batches_with_ids_0_and_2047", "generations", "compiles", "frames_encoded_ok", "frames_decoded_ok", "unknown_frames_rejected")


def replay(run, case):
    root = env.scratch("c18r")
    try:
        b = PP.Batch(run, case["batch"], root)
        if b.ok:
            check_batch(run, b, 30)
        b.cleanup()
    finally:
        shutil.rmtree(root, ignore_errors=True)
