"""C01 - Python codec round trip: decode(encode(v)) == v."""

from .. import env
from ..gen import schema as S, shapes, values as V
from ..ref import codec as ref
from . import codec_common as CC

PROPERTY = "C01"
LEVEL = "exploration"
RULE = (
    "Schemas are printed from descriptions and parsed by the real front end; cases are "
    "(schema, struct, value).  Systematic part: every leaf kind (u/i widths - all 64 on the "
    "thorough tier, boundary widths + a seeded sample on quick - f32, f64, str, enums of 8 "
    "width classes, 21 container shapes) preceded by a 0..7 bit field and followed by a 3 bit "
    "field, i.e. at every bit offset mod 8; values zero/min/max/asymmetric then random.  Random "
    "part: type trees over all constructors to depth 3, field ids out of order.  A case is "
    "non-trivial when the struct has >= 1 field and it was actually encoded and decoded; distinct = "
    "distinct (shape signature: multiset of (constructor path, width, bit offset mod 8), "
    "coarse value class)."
)
ASSUMPTIONS = [
    "values are in range for their type; strings are valid UTF-8 text (ASCII control characters included); signalling NaNs are not generated",
    "enum values travel as their numeric enumerator value",
    "zero-length fixed arrays and zero-width types are not generated",
    "known finding serde-signed-min-decodes-positive is matched by its defect model (only signed leaves holding -2^(N-1) differ, and they come back as +2^(N-1))",
]


def shards(tier):
    return 8 if tier == "quick" else 16


def check_case(run, fcp, sch, name, v, text, sig=None):
    from fcp import serde

    case = {"schema": text, "struct": name, "value": v, "description": sch.decls if sch is not None else None, "shared_subobjects": CC.shares_objects(v)}
    import copy as _copy

    pristine = _copy.deepcopy(v)
    try:
        b = serde.encode(fcp, name, v)
    except Exception as e:
        run.violation("encode raised %s: %s" % (type(e).__name__, e), case)
        return
    run.count("encode_calls")
    if not CC.earlier_results_intact(run, b, bytes(b), case):
        return
    if not ref.same(v, pristine):
        run.violation("encode() modified the value it was given (the caller's object)", dict(case, value=pristine, value_after_encode=v))
        return
    try:
        d = serde.decode(fcp, name, b)
    except Exception as e:
        case["bytes"] = bytes(b)
        run.violation("decode(encode(v)) raised %s: %s" % (type(e).__name__, e), case)
        return
    run.count("decode_calls")
    if not ref.same(d, v):
        if sch is not None:
            model, n = CC.signed_min_model(sch, ("struct", name), v)
            if n and ref.same(d, model):
                run.known_finding(CC.K_SIGNED_MIN, "decode(encode(v)) returns +2^(N-1) for %d signed leaves holding -2^(N-1)" % n, {"struct": name, "value": v, "decoded": d})
                return
        case["bytes"] = bytes(b)
        case["decoded"] = d
        run.violation("decode(encode(v)) != v", case)
        return
    run.count("roundtrips_equal")
    run.case(sig=sig, sample=None)
    if len(run.samples) < 3 and len(text) < 1500:
        run.sample({"schema": text, "struct": name, "value": v, "bytes": bytes(b)})


OPT_SCRIPT = r"""
import json, sys
from fcp.parser import get_fcp_from_string
from fcp.error import Logger
from fcp import serde
job = json.load(sys.stdin)
fcp = get_fcp_from_string(job["schema"], Logger({})).unwrap()
out = []
for name, v in job["cases"]:
    try:
        b = serde.encode(fcp, name, v)
        out.append(["ok", serde.decode(fcp, name, b)])
    except BaseException as e:
        out.append(["raised", "%s: %s" % (type(e).__name__, e)])
print(json.dumps(out))
"""


def optimized_interpreter(run):
    """The same round trip in interpreters started with -O and -OO (assert statements are compiled away)."""
    import json
    import subprocess
    import sys as _sys

    decls = [
        shapes.mk_enum("Mode", 5),
        shapes.mk_struct("In", [("p", 1, ("i", 6)), ("q", 0, ("u", 3))]),
        shapes.mk_struct("Opt", [("a", 0, ("u", 5)), ("o", 1, ("opt", ("u", 9))), ("s", 2, ("opt", ("str",))), ("n", 3, ("opt", ("struct", "In"))),
                                 ("l", 4, ("dyn", ("opt", ("enum", "Mode")))), ("f", 5, ("arr", ("f32",), 2)), ("z", 6, ("i", 3))]),
    ]
    sch = S.Sch(decls)
    text = S.print_schema(decls)
    r = run.rng("optimized")
    vals = [v for v in V.struct_values(r, sch, "Opt", 6, {"finite": True}) if CC.signed_min_model(sch, ("struct", "Opt"), v)[1] == 0]
    job = {"schema": text, "cases": [["Opt", v] for v in vals]}
    for flag in ("-O", "-OO"):
        try:
            p = subprocess.run([_sys.executable, flag, "-c", OPT_SCRIPT], input=json.dumps(job), capture_output=True, text=True, timeout=300, env=env.child_env())
            res = json.loads(p.stdout)
        except Exception as e:
            run.inconclusive_because("python %s child failed: %s: %s" % (flag, type(e).__name__, str(e)[:200]))
            return
        for (name, v), (status, got) in zip(job["cases"], res):
            case = {"schema": text, "struct": name, "value": v, "interpreter": "python " + flag, "description": decls}
            if status != "ok":
                run.violation("under python %s the round trip raised %s" % (flag, got[:200]), case)
                return
            if not ref.same(got, v):
                run.violation("under python %s decode(encode(v)) != v" % flag, dict(case, decoded=got))
                return
            run.count("roundtrips_under_optimizing_interpreters")


def run(run):
    if run.shard == 0:
        optimized_interpreter(run)
    reach = CC.start_reach()
    units = CC.schema_units(run)
    for i, unit in enumerate(units):
        if not run.mine(i):
            continue
        text, sch, cases = CC.unit_cases(run, unit)
        res = CC.parse(text)
        if res.is_err():
            run.violation("front end rejected a well-formed codec schema: %r" % (res.err(),), {"schema": text})
            continue
        run.count("schemas_parsed")
        fcp = res.unwrap()
        for ci, (name, v, sig) in enumerate(cases):
            if ci % 5 == 2:
                CC.provoke_faults(run, fcp, sch, name, v, ci)
            check_case(run, fcp, sch, name, v, text, sig)
            if ci % 4 == 1:
                # the same value with its equal sub-values being one shared object (no cycle)
                sv = CC.intern_equal(v)
                if CC.shares_objects(sv):
                    check_case(run, fcp, sch, name, sv, text, sig + "|shared-subobjects")
                    run.count("values_with_shared_subobjects")
        del fcp, res
    CC.address_reuse_history(run, lambda fcp, sch, name, v, text, sig: check_case(run, fcp, sch, name, v, text, sig), run.pick(120, 1200))
    CC.edited_schema_history(run, lambda fcp, sch, name, v, text, sig: check_case(run, fcp, sch, name, v, text, sig), run.pick(20, 200))
    reach.stop()
    run.extra["reach"] = reach.summary(40)


def conclude(run):
    run.require("values_with_shared_subobjects", "encode_calls", "decode_calls", "roundtrips_equal")


def replay(run, case):
    if "earlier_call" in case:
        # history: the earlier encode() whose result the caller still holds
        from fcp import serde

        e = case["earlier_call"]
        r0 = CC.parse(e["schema"])
        if r0.is_ok():
            raw = serde.encode(r0.unwrap(), e["struct"], e["value"])
            CC.earlier_results_intact(run, raw, bytes(raw), e)
    res = CC.parse(case["schema"])
    if res.is_err():
        run.violation("front end rejected the schema: %r" % (res.err(),), case)
        return
    sch = S.Sch(case["description"]) if case.get("description") else None
    check_case(run, res.unwrap(), sch, case["struct"], CC.intern_equal(case["value"]) if case.get("shared_subobjects") else case["value"], case["schema"])
