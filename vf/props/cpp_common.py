"""Shared machinery of the generated-C++ checks (C03, C13, C15, C18)."""

import json
import os
import shutil

from .. import env
from ..gen import schema as S, cppbatch, values as V, shapes
from ..ref import codec as ref
from ..native import cpp
from . import codec_common as CC


def batch_decls(run, bi):
    r = run.rng_ns("cppbatch", bi)
    return cppbatch.gen_batch(r, bi, services=(bi % 3 == 0), can=True)


def to_json(sch, t, v, enum_names=False):
    k = t[0]
    if k == "struct":
        return {f["name"]: to_json(sch, f["type"], v[f["name"]], enum_names) for f in sch.structs[t[1]]}
    if k in ("arr", "dyn"):
        return [to_json(sch, t[1], x, enum_names) for x in v]
    if k == "opt":
        return None if v is None else to_json(sch, t[1], v, enum_names)
    if k == "enum" and enum_names:
        return [n for n, x in sch.enums[t[1]] if x == v][0]
    if k in ("f32", "f64") and isinstance(v, float) and v != 0 and v.is_integer() and abs(v) < 2 ** 53 and int(v) % 2 == 0:
        return int(v)  # whole numbers travel the way most JSON writers spell them: 4, not 4.0
    return v


def from_json(sch, t, j, enum_names=False):
    """Python value of a decoded JSON document; raises ValueError when the JSON has the wrong shape."""
    k = t[0]
    if k == "struct":
        if not isinstance(j, dict):
            raise ValueError("expected object for %s, got %r" % (t[1], j))
        out = {}
        for f in sch.structs[t[1]]:
            if f["name"] not in j:
                raise ValueError("missing key %s" % f["name"])
            out[f["name"]] = from_json(sch, f["type"], j[f["name"]], enum_names)
        # (the synthesized rpc wrappers <X>Input carry a "__is_method_input" marker; they are not judged, and
        # a declared struct never has keys beyond its fields)
        extra = set(j) - {f["name"] for f in sch.structs[t[1]]}
        if extra:
            raise ValueError("unexpected keys %s" % sorted(extra))
        return out
    if k in ("arr", "dyn"):
        if not isinstance(j, list):
            raise ValueError("expected array, got %r" % (j,))
        return [from_json(sch, t[1], x, enum_names) for x in j]
    if k == "opt":
        return None if j is None else from_json(sch, t[1], j, enum_names)
    if k == "enum":
        if enum_names:
            m = [x for n, x in sch.enums[t[1]] if n == j]
            if not m:
                raise ValueError("unknown enumerator %r" % (j,))
            return m[0]
        if isinstance(j, bool) or not isinstance(j, int):
            raise ValueError("expected enum number, got %r" % (j,))
        return j
    if k in ("u", "i"):
        if isinstance(j, bool) or not isinstance(j, int):
            raise ValueError("expected integer, got %r" % (j,))
        return j
    if k in ("f32", "f64"):
        if isinstance(j, bool) or not isinstance(j, (int, float)):
            raise ValueError("expected number, got %r" % (j,))
        return float(j)
    if k == "str":
        if not isinstance(j, str):
            raise ValueError("expected string, got %r" % (j,))
        return j
    raise ValueError(t)


K_NARROW = "reflection-integers-truncated-to-32-bits"


def narrow_id_schema(sch, name):
    """Defect model of known finding K_NARROW as it reaches the C++ run-time codec: the reflection stores
    field ids as u32, so a struct with a field id outside 0..2^32-1 is loaded with that id reduced mod 2^32
    and serialized in THAT order.  Returns a Sch in which `name` has its ids reduced, or None when all ids
    of the struct fit."""
    import copy

    if all(0 <= f["id"] < 2 ** 32 for f in sch.structs[name]):
        return None
    decls = copy.deepcopy(sch.decls)
    for d in decls:
        if d["kind"] == "struct" and d["name"] == name:
            for f in d["fields"]:
                f["id"] = f["id"] % 2 ** 32
    return S.Sch(decls)


WARMUP_TEXT = 'version: "3"\nstruct Plain { a @0: u8, b @1: i16, }\nimpl can for Plain { id: 3, bus: "w", }\n'
_first_batch_of_process = True


class Batch:
    """One generated + compiled schema batch."""

    def __init__(self, run, bi, root, decls=None, can_bindings=None, compile_all=True):
        self.bi = bi
        self.ok = False
        if decls is None:
            decls, can_bindings = batch_decls(run, bi)
        self.decls = decls
        self.can_bindings = can_bindings or []
        self.sch = S.Sch(decls)
        self.text = S.print_schema(decls)
        self.dir = os.path.join(root, "b%d" % bi)
        os.makedirs(self.dir, exist_ok=True)
        self.case = {"schema": self.text, "batch": bi}
        self.split = decls is not None and False
        if bi % 4 == 2 and can_bindings:
            # every fourth batch is read from THREE files: the root imports a module with the types and a
            # module with the bindings and services (a binding named after its struct meets the struct's own
            # default binding only when the modules are merged)
            src = os.path.join(self.dir, "src")
            os.makedirs(src, exist_ok=True)
            types = [d for d in decls if d["kind"] in ("struct", "enum")]
            rest = [d for d in decls if d["kind"] not in ("struct", "enum")]
            open(os.path.join(src, "types.fcp"), "w").write(S.print_schema(types))
            open(os.path.join(src, "bindings.fcp"), "w").write(S.print_schema(rest))
            open(os.path.join(src, "main.fcp"), "w").write('version: "3"\nmod types;\nmod bindings;\n')
            self.split = True
            self.case["read_from"] = "main.fcp importing types.fcp (structs, enums) and bindings.fcp (bindings, services)"
            run.count("batches_read_from_module_files")
        res = self.parse()
        if res.is_err():
            run.violation("front end rejected a well-formed schema: %r" % (res.err(),), self.case)
            return
        self.fcp = res.unwrap()
        global _first_batch_of_process
        if _first_batch_of_process and run.shard % 2 == 0:
            # in every other worker process the FIRST thing the C++ generator ever sees is a small schema
            # without services, enums or containers (whatever a generator keeps per process is then
            # initialised by a schema that needs less than the batches do)
            try:
                cpp.generate(CC.parse(WARMUP_TEXT).unwrap(), os.path.join(self.dir, "warmup"))
                shutil.rmtree(os.path.join(self.dir, "warmup"), ignore_errors=True)
                run.count("processes_warmed_up_with_a_plain_schema")
            except Exception as e:
                run.violation("C++ generation raised %s: %s" % (type(e).__name__, e), {"schema": WARMUP_TEXT})
                return
        _first_batch_of_process = False
        try:
            tree = self.parse().unwrap()
            self.files = cpp.generate(tree, self.dir)
            if bi % 2:
                # every other batch is built from the SECOND generation out of one tree object (a generator
                # that grows or reorders the caller's tree shows in the second output, not in the first)
                self.files = cpp.generate(tree, self.dir)
                self.case["built_from"] = "second generation from the same tree object"
                run.count("second_generations_from_one_tree")
        except Exception as e:
            run.violation("C++ generation raised %s: %s" % (type(e).__name__, e), self.case)
            return
        run.count("generations")
        try:
            self.refl = os.path.join(self.dir, "output.bin")
            cpp.reflection_binary(self.fcp, self.refl)
        except Exception as e:
            self.refl = None
            self.refl_error = "%s: %s" % (type(e).__name__, e)
        self.binary, log = cpp.build(self.dir, self.files)
        run.count("compiles")
        if self.binary is None:
            self.case["compiler_output"] = log[-4000:]
            first = [l for l in log.split("\n") if "error" in l][:1]
            run.violation("generated C++ does not compile as C++17: %s" % (first[0][:300] if first else log[:300]), self.case)
            return
        self.ok = True

    def parse(self):
        if self.split:
            from fcp.parser import get_fcp
            from fcp.error import Logger

            return get_fcp(os.path.join(self.dir, "src", "main.fcp"), Logger({}))
        return CC.parse(self.text)

    def values(self, run, name, n_random, finite=True):
        r = run.rng_ns("cppvalues", self.bi, name)
        return V.struct_values(r, self.sch, name, n_random, {"finite": finite})

    def cleanup(self):
        shutil.rmtree(self.dir, ignore_errors=True)


def report_crashes(run, crashes, lines, case, what):
    for idx, rc, reports, tail in crashes:
        c2 = dict(case, command=lines[idx][:2000] if idx < len(lines) else None, stderr=tail[-1500:])
        if reports:
            run.violation("sanitizer report in generated C++ (%s): %s at %s" % (what, reports[0][0], reports[0][1]), c2)
        else:
            run.violation("C++ harness died rc=%s (%s) on: %s" % (rc, what, (lines[idx][:120] if idx < len(lines) else "?")), c2)
    return bool(crashes)
