"""Helpers shared by the parser-facing checks (C07, C08, C11, C12, C20)."""

import re

from ..gen import schema as S, descr

ANSI = re.compile(r"\x1b\[[0-9;]*m")


def parse_string(text, logger=None):
    from fcp.parser import get_fcp_from_string
    from fcp.error import Logger

    lg = logger if logger is not None else Logger({})
    return get_fcp_from_string(text, lg), lg


def parse_file(path, logger=None):
    from fcp.parser import get_fcp
    from fcp.error import Logger

    lg = logger if logger is not None else Logger({})
    return get_fcp(str(path), lg), lg


def features(decls):
    """Grammar features a description exercises (computed from the description itself)."""
    f = set()

    def vf(v, depth=0):
        if isinstance(v, list):
            f.add("value:array" if depth == 0 else "value:nested-array")
            for x in v:
                vf(x, depth + 1)
        elif isinstance(v, tuple) and v[0] == "num":
            f.add("value:spelled-number")
        elif isinstance(v, tuple):
            f.add("value:identifier" if v[0] == "id" else "value:string")
        elif isinstance(v, float):
            f.add("value:float")
        else:
            f.add("value:int" if v >= 0 else "value:negative-int")

    for d in decls:
        k = d["kind"]
        f.add("decl:" + k)
        if k == "struct":
            for fl in d["fields"]:
                for kk in S.type_kinds(fl["type"]):
                    f.add("type:" + kk)
                f.add("type-depth:%d" % min(S.type_depth(fl["type"]), 5))
                if "unit" in fl and "range" in fl:
                    f.add("param:unit+range")
                elif "unit" in fl:
                    f.add("param:unit")
                elif "range" in fl:
                    f.add("param:range")
                if "range" in fl and any(isinstance(x, int) for x in fl["range"]):
                    f.add("param:range-int-literal")
        elif k == "impl":
            if d["name"]:
                f.add("impl:renamed")
            for it in d["items"]:
                if it[0] == "field":
                    f.add("impl:extension-field")
                    vf(it[2])
                else:
                    f.add("impl:signal-block")
                    for _, v in it[2]:
                        vf(v)
        elif k == "device":
            for _, v in d["fields"]:
                vf(v)
        elif k == "service":
            f.add("service:methods-%d" % min(len(d["methods"]), 3))
    return f


REQUIRED_FEATURES = {
    "decl:struct", "decl:enum", "decl:impl", "decl:service", "decl:device", "decl:mod",
    "type:u", "type:i", "type:f32", "type:f64", "type:str", "type:struct", "type:enum",
    "type:arr", "type:dyn", "type:opt", "param:unit", "param:range", "param:unit+range",
    "impl:renamed", "impl:extension-field", "impl:signal-block",
    "value:int", "value:negative-int", "value:float", "value:string", "value:identifier",
    "value:array", "value:nested-array",
}


def k4_witness():
    """Canonical witness of known finding K4 (user type named with a builtin-type prefix)."""
    return [
        {"kind": "enum", "name": "i2c_state", "values": [("Idle", 0), ("Busy", 1)]},
        {"kind": "struct", "name": "stream_cfg", "fields": [{"name": "rate", "id": 0, "type": ("u", 16)}]},
        {"kind": "struct", "name": "Bus", "fields": [
            {"name": "state", "id": 0, "type": ("enum", "i2c_state")},
            {"name": "cfg", "id": 1, "type": ("struct", "stream_cfg")},
        ]},
    ]
