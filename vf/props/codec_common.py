"""Workload and monitors shared by C01, C02, C16 (Python codec)."""

import math

from ..gen import schema as S, shapes, values as V
from ..ref import codec as ref
from ..mon.reach import Reach


def parse(text):
    from fcp.parser import get_fcp_from_string
    from fcp.error import Logger

    return get_fcp_from_string(text, Logger({}))


def start_reach():
    import fcp.serde as sd

    return Reach([sd]).start()


def schema_units(run, with_big=True):
    """Deterministic list of work units: (unit_id, decls, n_random_values, opts).
    Every unit is one schema text; shards take units round-robin."""
    units = []
    thorough = not run.quick
    r = run.rng_ns("codec", "grid")
    kinds = shapes.leaf_kinds(thorough, r)
    offsets = list(range(8))
    chunk = 6  # leaf kinds per schema -> 48 structs
    for i in range(0, len(kinds), chunk):
        decls, cells = shapes.grid_schema(kinds[i : i + chunk], offsets)
        units.append(("grid%d" % (i // chunk), decls, run.pick(3, 10), {}))
    decls, cells = shapes.container_grid(offsets)
    # split the container grid by struct to keep parse time per unit small
    head = [d for d in decls if d["kind"] == "enum" or d["name"] == "Gin"]
    body = [d for d in decls if d["kind"] == "struct" and d["name"] != "Gin"]
    for i in range(0, len(body), 48):
        units.append(("cgrid%d" % (i // 48), head + body[i : i + 48], run.pick(3, 10), {}))
    n_random = run.pick(160, 4000)
    for i in range(n_random):
        rr = run.rng_ns("codec", "random", i)
        decls = shapes.random_codec_schema(rr)
        units.append(("rand%d" % i, decls, run.pick(5, 10), {}))
    # symmetric-mistake classes (C02): out-of-order ids with asymmetric widths, big counts
    special = [
        shapes.mk_struct("OrdA", [("c", 9, ("u", 5)), ("a", 2, ("u", 11)), ("b", 4, ("i", 3)), ("d", 0, ("f32",))]),
        shapes.mk_struct("OrdB", [("z", 1, ("str",)), ("y", 0, ("u", 1)), ("x", 7, ("opt", ("u", 3)))]),
        shapes.mk_struct("Inner", [("q", 3, ("u", 3)), ("p", 1, ("i", 6))]),
        shapes.mk_struct("OrdC", [("n", 5, ("struct", "Inner")), ("m", 2, ("arr", ("struct", "Inner"), 2)), ("l", 9, ("u", 2))]),
        shapes.mk_struct("Flag", [("a", 0, ("u", 3)), ("o", 1, ("opt", ("u", 5))), ("p", 2, ("opt", ("i", 2))), ("z", 3, ("u", 1))]),
        # two fields of one struct sharing a field id (the front end and the general checks accept that): both
        # travel, in declaration order among equals
        shapes.mk_struct("DupId", [("a", 0, ("u", 8)), ("b", 1, ("u", 16)), ("c", 1, ("u", 32))]),
        shapes.mk_struct("DupId2", [("x", 4, ("i", 5)), ("y", 4, ("str",)), ("z", 2, ("u", 3)), ("w", 4, ("opt", ("u", 7)))]),
        shapes.mk_struct("DupIn", [("n", 0, ("struct", "DupId")), ("m", 0, ("arr", ("struct", "DupId2"), 2))]),
        # a binding RENAMED to the name of another struct that is declared after it: struct names are looked up
        # among structs
        shapes.mk_struct("PedalRaw", [("a", 0, ("u", 16)), ("b", 1, ("u", 8))]),
        {"kind": "impl", "protocol": "can", "type": "PedalRaw", "name": "Pedal", "items": [("field", "id", 1)]},
        shapes.mk_struct("Pedal", [("x", 0, ("u", 8)), ("y", 1, ("i", 8))]),
        shapes.mk_struct("UsesPedal", [("p", 0, ("struct", "Pedal")), ("q", 1, ("u", 3)), ("l", 2, ("dyn", ("struct", "Pedal")))]),
        # range() annotations say nothing about the wire: any value of the TYPE has its canonical encoding
        {"kind": "struct", "name": "Ranged", "fields": [
            {"name": "a", "id": 0, "type": ("u", 8), "range": (0, 200)},
            {"name": "o", "id": 1, "type": ("opt", ("u", 8)), "range": (0, 10)},
            {"name": "l", "id": 2, "type": ("arr", ("i", 8), 2), "range": (0, 1)},
            {"name": "f", "id": 3, "type": ("f32",), "range": (-1.5, 1.5), "unit": "V"},
            {"name": "s", "id": 4, "type": ("str",), "unit": "x"}]},
        # enums whose NAMES begin like builtin integer types (i..., u..., f...), holding values with their top bit set
        shapes.mk_enum("ignition", 3), shapes.mk_enum("i2c_state", 200), shapes.mk_enum("u_mode", 5), shapes.mk_enum("f32x", 129), shapes.mk_enum("i", 1),
        shapes.mk_struct("EnumNames", [("a", 0, ("u", 3)), ("ig", 1, ("enum", "ignition")), ("st", 2, ("enum", "i2c_state")), ("um", 3, ("opt", ("enum", "u_mode"))),
                                       ("fx", 4, ("arr", ("enum", "f32x"), 2)), ("l", 5, ("dyn", ("enum", "i2c_state"))), ("one", 6, ("enum", "i"))]),
        # field names that are also the names of dict methods / attributes of Python objects: values are looked up BY KEY
        shapes.mk_struct("DictIn", [("items", 0, ("u", 8)), ("keys", 1, ("i", 5))]),
        shapes.mk_struct("DictNames", [("items", 0, ("u", 8)), ("values", 1, ("i", 12)), ("keys", 2, ("str",)), ("get", 3, ("opt", ("u", 4))), ("copy", 4, ("struct", "DictIn")),
                                       ("pop", 5, ("dyn", ("struct", "DictIn"))), ("update", 6, ("f32",)), ("clear", 7, ("arr", ("u", 2), 2)), ("__class__", 8, ("u", 1)),
                                       ("setdefault", 9, ("u", 3)), ("fromkeys", 10, ("u", 3)), ("__len__", 11, ("u", 2)), ("popitem", 12, ("i", 2))]),
        # integer widths written with a leading zero (u05, i08): the same types as u5 and i8
        shapes.mk_struct("Padded", [("a", 0, ("u", 1, "u01")), ("b", 1, ("i", 8, "i08")), ("c", 2, ("opt", ("u", 9, "u09"))),
                                    ("d", 3, ("arr", ("i", 3, "i03"), 2)), ("e", 4, ("dyn", ("u", 5, "u05"))), ("z", 5, ("u", 7, "u07"))]),
        # fixed arrays longer than 256 elements (beyond CPython's small-int cache)
        shapes.mk_struct("Arr257", [("a", 0, ("u", 3)), ("d", 1, ("arr", ("u", 1), 257)), ("z", 2, ("i", 4))]),
        shapes.mk_struct("Arr300", [("d", 0, ("arr", ("i", 5), 300)), ("e", 1, ("arr", ("arr", ("u", 2), 260), 2))]),
    ]
    units.append(("special", special, run.pick(8, 40), {}))
    if with_big:
        big = [
            shapes.mk_struct("BigStr", [("a", 0, ("u", 3)), ("s", 1, ("str",)), ("z", 2, ("u", 2))]),
            shapes.mk_struct("BigU1", [("a", 0, ("u", 1)), ("d", 1, ("dyn", ("u", 1))), ("z", 2, ("i", 4))]),
            shapes.mk_struct("BigU8", [("d", 0, ("dyn", ("u", 8))), ("z", 1, ("u", 7))]),
            # hundreds of Optionals in one message, absent and present (each is one level of nesting, entered and left)
            shapes.mk_struct("BigOpt", [("a", 0, ("u", 3)), ("d", 1, ("dyn", ("opt", ("u", 8)))), ("e", 2, ("arr", ("opt", ("i", 5)), 300)),
                                        ("f", 3, ("dyn", ("struct", "BigOptIn"))), ("z", 4, ("u", 2))]),
            shapes.mk_struct("BigOptIn", [("o", 0, ("opt", ("u", 4))), ("p", 1, ("opt", ("str",)))]),
        ]
        big = [big[-1]] + big[:-1]
        units.append(("big", big, 1, {"big": True}))
    return units


def unit_cases(run, unit):
    """Yield (text, sch, struct_name, value, sig) for one unit."""
    uid, decls, nrand, opts = unit
    sch = S.Sch(decls)
    text = S.print_schema(decls)
    r = run.rng_ns("codec", "values", uid)
    out = []
    for name in sch.structs:
        sig = shapes.shape_sig(sch, name)
        vals = V.struct_values(r, sch, name, nrand, opts)
        if uid == "big":
            vals = vals[:3]
            if name == "BigStr":
                vals.append({"a": 5, "s": "".join(chr(32 + i % 95) for i in range(300)), "z": 2})
                vals.append({"a": 1, "s": "".join(chr(32 + i % 95) for i in range(65536 + 64)), "z": 3})  # a count that needs more than 16 bits
            elif name == "BigU1":
                rr = run.rng_ns("codec", "big", name)
                vals.append({"a": 1, "d": [rr.getrandbits(1) for _ in range(run.pick(300, 70000))], "z": -3})
            elif name == "BigU8":
                rr = run.rng_ns("codec", "big", name)
                vals.append({"d": [rr.getrandbits(8) for _ in range(run.pick(65537, 66000))], "z": 99})
            elif name == "BigOpt":
                rr = run.rng_ns("codec", "big", name)
                for nn, ns in ((300, 0), (0, 300), (200, 200)):
                    d = [None] * nn + [rr.getrandbits(8) for _ in range(ns)]
                    rr.shuffle(d)
                    vals.append({"a": 5, "d": d, "e": [None if rr.random() < 0.7 else rr.randint(-16, 15) for _ in range(300)],
                                 "f": [{"o": None, "p": None} if rr.random() < 0.8 else {"o": 3, "p": "x"} for _ in range(nn // 2)], "z": 1})
        for i, v in enumerate(vals):
            out.append((name, v, sig + "|" + value_sig(v)))
    return text, sch, out


def intern_equal(v, pool=None):
    """A value equal to v in which equal dict / list sub-values are ONE object reached several times (what
    `[row] * n`, `{"first": p, "last": p}` or a shared empty list give a caller).  Sharing is no cycle."""
    pool = {} if pool is None else pool
    if isinstance(v, dict):
        out = {k: intern_equal(x, pool) for k, x in v.items()}
    elif isinstance(v, list):
        out = [intern_equal(x, pool) for x in v]
    else:
        return v
    return pool.setdefault(_exact_key(out), out)


def _exact_key(v):
    """Text that is equal only for values that are equal bit for bit (floats by their IEEE pattern: two NaNs with
    different payloads print alike; ints, bools and floats of equal value are told apart)."""
    import struct

    if isinstance(v, dict):
        return "{" + ",".join("%r:%s" % (k, _exact_key(x)) for k, x in v.items()) + "}"
    if isinstance(v, list):
        return "[" + ",".join(_exact_key(x) for x in v) + "]"
    if isinstance(v, float):
        return "f" + struct.pack("<d", v).hex()
    return "%s:%r" % (type(v).__name__, v)


def shares_objects(v, seen=None):
    seen = set() if seen is None else seen
    if isinstance(v, (dict, list)):
        if id(v) in seen:
            return True
        seen.add(id(v))
        return any(shares_objects(x, seen) for x in (v.values() if isinstance(v, dict) else v))
    return False


def value_sig(v):
    """Coarse value class used for distinct-case counting."""
    if isinstance(v, dict):
        return "{" + ",".join(value_sig(x) for x in v.values()) + "}"
    if isinstance(v, list):
        return "[%d:%s]" % (min(len(v), 3), ",".join(sorted({value_sig(x) for x in v[:3]})))
    return V.value_class(None, v)


def vector_cases(repo):
    """The project's cross-language vectors as (decls, name, value, bytes)."""
    n, problems, used = ref.self_check(repo)
    return n, problems, used


K_SIGNED_MIN = "serde-signed-min-decodes-positive"


def signed_min_model(sch, t, v):
    """DEFECT MODEL of known finding serde-signed-min-decodes-positive: the value the Python decoder
    returns for v - every signed leaf holding -2^(N-1) comes back as +2^(N-1), nothing else changes.
    Returns (model value, number of affected leaves)."""
    k = t[0]
    if k == "i":
        if v == -(1 << (t[1] - 1)):
            return (1 << (t[1] - 1)), 1
        return v, 0
    if k == "struct":
        out = {}
        n = 0
        for f in sch.structs[t[1]]:
            out[f["name"]], c = signed_min_model(sch, f["type"], v[f["name"]])
            n += c
        return out, n
    if k in ("arr", "dyn"):
        out = []
        n = 0
        for x in v:
            y, c = signed_min_model(sch, t[1], x)
            out.append(y)
            n += c
        return out, n
    if k == "opt" and v is not None:
        return signed_min_model(sch, t[1], v)
    return v, 0


def address_reuse_history(run, judge, rounds):
    """One process handles a long sequence of DIFFERENT schema objects whose declarations share their
    names but not their widths; each object is dropped and collected before the next one is created,
    so CPython hands addresses out again (anything remembered per id(schema) or per type name from an
    earlier object then meets a different schema).  judge(fcp, sch, struct, value, text, sig) per case."""
    import gc

    r = run.rng_ns("codec", "address-reuse", run.shard)
    seen = set()
    reused = 0
    maxes = [1, 3, 200, 70000, 5, 255, 256, 2]
    widths = [3, 9, 17, 1, 33, 8]
    for k in range(rounds):
        mx = maxes[k % len(maxes)]
        w = widths[k % len(widths)]
        decls = [
            shapes.mk_enum("Mode", mx),
            shapes.mk_struct("Inner", [("p", 0, ("u", w)), ("m", 1, ("enum", "Mode"))]),
            shapes.mk_struct("Frame", [("a", 0, ("u", 3)), ("m", 1, ("enum", "Mode")), ("n", 2, ("struct", "Inner")),
                                       ("l", 3, ("dyn", ("enum", "Mode"))), ("z", 4, ("i", 5))]),
        ]
        text = S.print_schema(decls)
        res = parse(text)
        if res.is_err():
            run.violation("front end rejected a well-formed codec schema: %r" % (res.err(),), {"schema": text})
            return
        fcp = res.unwrap()
        if id(fcp) in seen:
            reused += 1
        seen.add(id(fcp))
        sch = S.Sch(decls)
        for v in V.struct_values(r, sch, "Frame", 1, {})[-2:]:
            judge(fcp, sch, "Frame", v, text, "address-reuse|enum max %d|u%d" % (mx, w))
        del fcp, res
        gc.collect()
    run.count("schema_objects_in_sequence", rounds)
    run.count("schema_objects_at_a_reused_address", reused)


def edited_schema_history(run, judge, rounds):
    """A schema object is used by the codec, then EDITED IN PLACE (a field appended to a struct, two field
    ids exchanged, a field's type widened, an enumerator added), then used again: the codec must follow the
    schema as it is at the time of the call.  The description given to the reference is edited alongside."""
    import copy
    from fcp.specs.struct_field import StructField
    from fcp.specs import type as T
    from fcp.specs.enum import Enumeration

    r = run.rng_ns("codec", "edited", run.shard)
    for k in range(rounds):
        decls = [
            shapes.mk_enum("Gear", r.choice([1, 2, 3])),
            shapes.mk_struct("Pose", [("x", 0, ("i", r.choice([5, 8, 12]))), ("y", 1, ("u", r.choice([3, 8])))]),
            shapes.mk_struct("Cfg", [("a", 2, ("u", 4)), ("g", 5, ("enum", "Gear")), ("p", 7, ("struct", "Pose")),
                                     ("l", 9, ("dyn", ("struct", "Pose")))]),
        ]
        text = S.print_schema(decls)
        res = parse(text)
        if res.is_err():
            run.violation("front end rejected a well-formed codec schema: %r" % (res.err(),), {"schema": text})
            return
        fcp = res.unwrap()
        sch = S.Sch(decls)
        for v in V.struct_values(r, sch, "Cfg", 1, {})[-2:]:
            judge(fcp, sch, "Cfg", v, text, "edited|before")
        edit = ["append-field", "swap-ids", "widen-field", "add-enumerator", "prepend-lowest-id"][k % 5]
        decls = copy.deepcopy(decls)
        pose = fcp.get_struct("Pose").unwrap()
        dpose = [d for d in decls if d["name"] == "Pose"][0]
        if edit == "append-field":
            pose.fields.append(StructField("z", 2, T.SignedType("i7")))
            dpose["fields"].append({"name": "z", "id": 2, "type": ("i", 7)})
        elif edit == "prepend-lowest-id":
            cfg = fcp.get_struct("Cfg").unwrap()
            cfg.fields.append(StructField("first", 0, T.UnsignedType("u3")))
            [d for d in decls if d["name"] == "Cfg"][0]["fields"].append({"name": "first", "id": 0, "type": ("u", 3)})
        elif edit == "swap-ids":
            pose.fields[0].field_id, pose.fields[1].field_id = pose.fields[1].field_id, pose.fields[0].field_id
            dpose["fields"][0]["id"], dpose["fields"][1]["id"] = dpose["fields"][1]["id"], dpose["fields"][0]["id"]
        elif edit == "widen-field":
            pose.fields[1].type = T.UnsignedType("u19")
            dpose["fields"][1]["type"] = ("u", 19)
        else:
            gear = fcp.get_enum("Gear").unwrap()
            gear.enumeration.append(Enumeration("Top", 200, None))
            [d for d in decls if d["name"] == "Gear"][0]["values"].append(("Top", 200))
        sch2 = S.Sch(decls)
        text2 = S.print_schema(decls) + "// reached by editing the parsed tree in place (%s) after it had been used\n" % edit
        for v in V.struct_values(r, sch2, "Cfg", 2, {})[-3:]:
            judge(fcp, sch2, "Cfg", v, text2, "edited|after %s" % edit)
        run.count("schemas_edited_in_place_between_calls")


def provoke_faults(run, fcp, sch, name, v, k):
    """History: calls that FAIL part-way on this schema object right before a valid call is judged - an
    encode of a value that lacks its last key / holds a string where a number belongs (fields before it
    are already written when it raises), and a decode of a cut input.  Whatever they leave behind in
    module- or object-level state must not reach the next call."""
    import copy
    from fcp import serde

    fields = sch.fields_by_id(name)
    if not isinstance(v, dict) or not fields:
        return
    broken = copy.deepcopy(v)
    last = fields[-1]["name"]
    if k % 2:
        broken.pop(last, None)
    else:
        broken[last] = "not a %s" % fields[-1]["type"][0] if fields[-1]["type"][0] != "str" else 12.5
    for call in (lambda: serde.encode(fcp, name, broken), lambda: serde.decode(fcp, name, bytearray(b"\x01"))):
        try:
            call()
        except Exception:
            run.count("failed_calls_before_a_judged_call")



_EARLIER = []


def earlier_results_intact(run, raw, copy_now, case):
    """History monitor: the objects returned by the last few encode() calls are kept by the caller (a queue of
    frames waiting to be sent); a later encode() must not change them."""
    for old_raw, old_copy, old_case in _EARLIER:
        if bytes(old_raw) != old_copy:
            run.violation("the bytes returned by an earlier encode() call changed when encode() was called again (the earlier call: struct %s)" % old_case.get("struct"),
                          dict(case, earlier_call=dict(old_case, bytes_then=old_copy, bytes_now=bytes(old_raw))))
            del _EARLIER[:]
            return False
    if not isinstance(raw, bytes):
        _EARLIER.append((raw, copy_now, {"schema": case.get("schema"), "struct": case.get("struct"), "value": case.get("value")}))
        del _EARLIER[:-3]
        run.count("earlier_encode_results_rechecked")
    return True
