"""Child process of C17: generates artefacts in a fresh interpreter and prints
{schema: {generator: {relative path: sha256 of stamp-free contents}}} as JSON."""

import hashlib
import json
import os
import random
import re
import shutil
import sys
import tempfile

from vf import env

STAMP = re.compile(r"^// Generated using fcp .* on .* by .*@.*$", re.M)
GENS = ["cpp", "dbc", "can_c", "nop"]


def normalise(contents):
    return STAMP.sub("// <generation stamp>", str(contents))


def file_map(gen, fcp, tmp, into_written_dir=False):
    import importlib

    mod = importlib.import_module("fcp_" + gen)
    out = os.path.join(tmp, "o_" + gen)
    if GENERATORS is not None and gen in GENERATORS:
        generator = GENERATORS[gen]
    else:
        generator = mod.Generator()
        if GENERATORS is not None and REUSE_GENERATORS:
            GENERATORS[gen] = generator
    if into_written_dir:
        # the output directory already holds what an earlier run wrote there (the same files, one of them
        # with older contents): what generate() returns may not depend on that
        first = generator.generate(fcp, {"output": out, "templates": {}, "skels": {}})
        for k, f in enumerate(first):
            if f.get("type") == "file":
                os.makedirs(os.path.dirname(str(f["path"])), exist_ok=True)
                with open(str(f["path"]), "w") as fh:
                    fh.write(str(f["contents"]) if k % 3 else "/* older contents */\n")
    res = generator.generate(fcp, {"output": out, "templates": {}, "skels": {}})
    m = {}
    order = []
    for f in res:
        if f.get("type") != "file":
            m["<print:%d>" % len(m)] = hashlib.sha256(normalise(f.get("contents")).encode()).hexdigest()
            continue
        rel = os.path.relpath(str(f["path"]), out)
        order.append(rel)
        if rel in m:
            m[rel + "#dup"] = "duplicate path in returned list"
        m[rel] = hashlib.sha256(normalise(f["contents"]).encode()).hexdigest()
    shutil.rmtree(out, ignore_errors=True)
    return m, order


DEFAULT_LOGGER = False  # history / reuse modes: the documented call get_fcp(path) with its default logger
REUSE_GENERATORS = False
GENERATORS = {}  # generator-reuse mode: one Generator object per plug-in for the whole process


def parse(path):
    from fcp.parser import get_fcp
    from fcp.error import Logger

    if DEFAULT_LOGGER:
        return get_fcp(path)
    return get_fcp(path, Logger({}))


def generate_all(path, tmp, gens=GENS):
    out = {}
    for g in gens:
        res = parse(path)  # a fresh tree per generator
        if res.is_err():
            out[g] = {"<error>": repr(res.err())[:200]}
            continue
        try:
            m, order = file_map(g, res.unwrap(), tmp)
            out[g] = m
        except Exception as e:
            out[g] = {"<exception>": "%s: %s" % (type(e).__name__, str(e)[:200])}
    return out


def default_value(fcp, t):
    n = type(t).__name__
    if n in ("UnsignedType", "SignedType"):
        return 1
    if n in ("FloatType", "DoubleType"):
        return 0.5
    if n == "StringType":
        return "x"
    if n == "EnumType":
        return fcp.get_enum(t.name).unwrap().enumeration[0].value
    if n == "StructType":
        return {f.name: default_value(fcp, f.type) for f in fcp.get_struct(t.name).unwrap().fields}
    if n == "ArrayType":
        return [default_value(fcp, t.underlying_type) for _ in range(min(t.size, 64))] if t.size <= 64 else [default_value(fcp, t.underlying_type)] * t.size
    if n == "DynamicArrayType":
        return [default_value(fcp, t.underlying_type)]
    if n == "OptionalType":
        return default_value(fcp, t.underlying_type)
    raise ValueError(n)


def use_codec(fcp):
    from fcp import serde

    for st in list(fcp.structs):
        v = {f.name: default_value(fcp, f.type) for f in st.fields}
        data = serde.encode(fcp, st.name, v)
        serde.decode(fcp, st.name, bytearray(data))


def noise(r, others, tmp):
    """Random parse / verify / generate / encode operations on OTHER schemas (history)."""
    from fcp.parser import get_fcp_from_string
    from fcp.verifier import make_general_verifier
    from fcp import serde

    log = []
    for _ in range(r.randint(5, 30)):
        op = r.choice(["parse", "badparse", "verify", "gen", "gen", "encode", "reflect", "badmodule"])
        path = r.choice(others)
        log.append(op)
        try:
            if op == "badmodule":
                # a project whose imported module (named like the target's: part.fcp) is well-formed text with a
                # fault the transformer / the importer finds: the parse fails INSIDE the import
                d = tempfile.mkdtemp(prefix="badmod", dir=tmp)
                body = r.choice(['struct Z { a @0: MissingType, }', 'struct Z { a @0: u8 | nosuchparam(1), }', 'enum E { }', 'mod nowhere_at_all;',
                                 'struct Z { a @1.5: u8, }'])
                open(os.path.join(d, "part.fcp"), "w").write(('version: "3"\n' if r.random() < 0.8 else 'version: "2"\n') + body + "\n")
                open(os.path.join(d, "main.fcp"), "w").write('version: "3"\nmod part;\nstruct Y { b @0: u8, }\n')
                parse(os.path.join(d, "main.fcp"))
                continue
            if op == "badparse":
                txt = open(path).read()
                get_fcp_from_string(txt[: r.randrange(len(txt))])
                continue
            res = parse(path)
            if res.is_err():
                continue
            fcp = res.unwrap()
            if op == "verify":
                make_general_verifier().verify(fcp)
            elif op == "gen":
                file_map(r.choice(GENS), fcp, tmp)
            elif op == "reflect":
                from fcp.reflection import get_reflection_schema

                serde.encode(get_reflection_schema().unwrap(), "Fcp", fcp.reflection())
            elif op == "encode" and fcp.structs:
                pass
        except Exception:
            pass
    return log


def same_length_variant(text, r):
    """Another schema of exactly the same length, with every declaration at the same offsets: pairs of neighbouring
    field ids of equal digit count exchanged, single-digit enumerator values and integer widths changed."""
    ids = [m for m in re.finditer(r"@(\d+)", text)]
    out = list(text)
    for a, b in zip(ids[::2], ids[1::2]):
        if len(a.group(1)) == len(b.group(1)) and a.group(1) != b.group(1) and r.random() < 0.7:
            out[a.start(1):a.end(1)], out[b.start(1):b.end(1)] = list(b.group(1)), list(a.group(1))
    t = "".join(out)
    t = re.sub(r"= ([1-7]),", lambda m: "= %d," % (int(m.group(1)) + 1) if r.random() < 0.5 else m.group(0), t)
    t = re.sub(r"\b([ui])([2-8])\b", lambda m: "%s%d" % (m.group(1), int(m.group(2)) - 1) if r.random() < 0.5 else m.group(0), t)
    return t


def main():
    env.setup()
    sys.dont_write_bytecode = True
    job = json.load(open(sys.argv[1]))
    tmp = tempfile.mkdtemp(prefix="vf-c17c-")
    out = {"hashseed": os.environ.get("PYTHONHASHSEED"), "results": {}, "mode": job["mode"]}
    try:
        if job["mode"] == "fresh":
            for path in job["schemas"]:
                out["results"][path] = generate_all(path, tmp)
        elif job["mode"] == "history":
            global DEFAULT_LOGGER, REUSE_GENERATORS
            DEFAULT_LOGGER = True
            REUSE_GENERATORS = bool(job.get("reuse_generators"))
            r = random.Random(job["seed"])
            for path in job["schemas"]:
                others = [p for p in job["schemas"] if p != path] or [path]
                log = noise(r, others, tmp)
                out["results"][path] = generate_all(path, tmp)
                out.setdefault("histories", {})[path] = log
        elif job["mode"] == "address-reuse":
            # one long-lived process: the schemas take turns, each parsed tree is dropped and collected
            # before the next is parsed, so trees land on addresses earlier trees had (anything a generator
            # remembers per id(tree) then meets another schema).  The LAST result per (schema, generator) is kept
            # together with any earlier result that differs from it.
            import gc

            seen = set()
            reused = 0
            rounds = job.get("rounds", 6)
            shared = os.path.join(tmp, "shared")
            for rnd in range(rounds):
                for path in job["schemas"]:
                    for g in GENS:
                        src = path
                        if rnd % 2:
                            # odd rounds: every schema is copied to ONE fixed location first (files edited in place
                            # between two runs of a long-lived process)
                            shutil.rmtree(shared, ignore_errors=True)
                            shutil.copytree(os.path.dirname(path), shared)
                            src = os.path.join(shared, os.path.basename(path))
                            if rnd % 4 == 1:
                                # ... and before that, the file at that very path held ANOTHER revision of the schema with
                                # every declaration at the same offsets (ids exchanged, values and widths changed),
                                # which this process generated from as well
                                orig = open(src, encoding="utf-8").read()
                                var = same_length_variant(orig, random.Random(rnd * 7919 + len(orig)))
                                if var != orig and len(var) == len(orig):
                                    open(src, "w", encoding="utf-8").write(var)
                                    try:
                                        rv = parse(src)
                                        if rv.is_ok():
                                            file_map(g, rv.unwrap(), tmp)
                                            out["same_offset_revisions_generated_first"] = out.get("same_offset_revisions_generated_first", 0) + 1
                                        del rv
                                    except Exception:
                                        pass
                                    open(src, "w", encoding="utf-8").write(orig)
                        res = parse(src)
                        if res.is_err():
                            m = {"<error>": repr(res.err())[:200]}
                        else:
                            fcp = res.unwrap()
                            if id(fcp) in seen:
                                reused += 1
                            seen.add(id(fcp))
                            try:
                                m = file_map(g, fcp, tmp)[0]
                            except Exception as e:
                                m = {"<exception>": "%s: %s" % (type(e).__name__, str(e)[:200])}
                            del fcp
                        del res
                        gc.collect()
                        per = out["results"].setdefault(path, {})
                        if g in per and per[g] != m:
                            per[g + "/differs-in-round-%d" % rnd] = m
                        else:
                            per[g] = m
            out["trees_at_a_reused_address"] = reused
            out["trees"] = len(job["schemas"]) * len(GENS) * rounds
        elif job["mode"] == "reuse":
            # same tree object: twice the same generator, and cpp -> dbc -> can_c -> cpp
            for path in job["schemas"]:
                res = parse(path)
                if res.is_err():
                    # a schema the front end rejects is rejected here as anywhere: same (error) result for every entry
                    e = {"<error>": repr(res.err())[:200]}
                    per = {"codec-uses": {"<ok>": "1"}, "cpp/after-others": e}
                    for g in GENS:
                        for suffix in ("/first", "/second", "/after-codec", "/into-written-dir"):
                            per[g + suffix] = e
                    out["results"][path] = per
                    continue
                fcp = res.unwrap()
                per = {}
                def safe_map(g):
                    # a generation that raises on a tree another generator has used is a result, not a crash
                    try:
                        return file_map(g, fcp, tmp)[0]
                    except Exception as e:
                        return {"<exception>": "%s: %s" % (type(e).__name__, str(e)[:200])}

                for g in GENS:
                    per[g + "/first"] = safe_map(g)
                    per[g + "/second"] = safe_map(g)
                per["cpp/after-others"] = safe_map("cpp")
                # ... and once more after the Python codec has encoded and decoded a value of every struct
                # with this very tree object
                try:
                    use_codec(fcp)
                    per["codec-uses"] = {"<ok>": "1"}
                except Exception as e:
                    per["codec-uses"] = {"<exception>": "%s: %s" % (type(e).__name__, str(e)[:200])}
                for g in GENS:
                    per[g + "/after-codec"] = safe_map(g)
                for g in GENS:
                    try:
                        per[g + "/into-written-dir"] = file_map(g, parse(path).unwrap(), tmp, into_written_dir=True)[0]
                    except Exception as e:
                        per[g + "/into-written-dir"] = {"<exception>": "%s: %s" % (type(e).__name__, str(e)[:200])}
                out["results"][path] = per
    finally:
        shutil.rmtree(tmp, ignore_errors=True)
    json.dump(out, sys.stdout)


if __name__ == "__main__":
    main()
