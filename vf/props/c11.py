"""C11 - the parser is total: every input yields a schema or a renderable error."""

import os
import re
import shutil
import signal
import time

from .. import env
from ..gen import schema as S, descr
from ..mon.reach import Reach
from . import parse_common as PC

PROPERTY = "C11"
LEVEL = "exploration"
RULE = (
    "Inputs: (a) every prefix (each character boundary, sampled to <= 60 per schema on quick) of "
    "valid schemas that together use every production; (b) token-level mutants (delete / duplicate / "
    "swap-adjacent / replace by a token of another class, 1-3 edits); (c) syntactically valid but "
    "out-of-domain literals (float ids, string/float/negative enum values, unknown or ill-arity "
    "parameters, empty enum, u0/u99, huge numbers, wrong version); (d) random ASCII / unicode / control "
    "text and the empty string, strings with long backslash runs (terminated or not); (e) type / value nesting to depth 5000 (far beyond the interpreter's recursion limit); (f) the same faults inside imported "
    "module files; nested inputs parsed with 20..520 stack frames of headroom (sys.setrecursionlimit around the call: RecursionError injected at every depth of the front end's call tree).  Monitors: exception escape (any BaseException), result type (Ok/Err), "
    "Logger.error(err) must render, every [file.fcp:line] citation must name a registered source and "
    "an existing line and the quoted source text must be that line; every third input is parsed and "
    "rendered through one long-lived shared Logger (history of parses); CPU budget 20 s per input (twice in isolation => violation).  distinct = "
    "(input class, outcome, normalised first error message)."
)
ASSUMPTIONS = [
    "nesting is bounded at 5000 levels (a 15 KB input)",
    "self-importing modules are outside the quantifier",
    "citations of python source files ([parser.py:NNN]) are implementation locations, only .fcp citations are judged",
]

TOK = re.compile(r'"[^"\n]*"|/\*.*?\*/|//[^\n]*|[A-Za-z_][A-Za-z0-9_]*|-?\d+\.?\d*(?:e-?\d+)?|\s+|.', re.S)
POOL = ['struct', 'enum', 'impl', 'for', 'as', 'signal', 'service', 'method', 'returns', 'device', 'mod',
        'version', '{', '}', '[', ']', '(', ')', ',', ':', ';', '@', '|', '=', '"x"', '"3"', '1', '-1', '1.5',
        '1e400', 'u8', 'i64', 'f32', 'str', 'Optional', 'u0', 'u99', 'x', 'A', '.', '"', '/*', '*/', '//',
        '\x00', 'é', '\t', '\n', '\r', 'range', 'unit', '999999999999999999999999', '-', '+', '0x10', '1_000']
LITERALS = [
    'struct A { a @1.5: u8, }', 'enum E { }', 'enum E { A = "x", }', 'enum E { A = 1.5, }',
    'enum E { A = -1, }', 'enum E { A = B, }', 'enum E { A = [1,2], }', 'struct A { a @0: u8 | foo(1), }',
    'struct A { a @0: u8 | range(1), }', 'struct A { a @0: u8 | range(), }', 'struct A { a @0: u8 | unit(), }',
    'struct A { a @0: u8 | unit(1), }', 'struct A { a @0: u8 | unit("a","b"), }',
    'struct A { a @0: u8 | range("a","b"), }', 'struct A { a @0: u8 | range(a, b), }',
    'struct A { a @0: u8 | range([1],[2]), }', 'struct A { a @0: [u8, 1.5], }', 'struct A { a @0: [u8, -1], }',
    'struct A { a @0: [u8, 0], }', 'service S @0.5 { method M(A) @0 returns B, }',
    'service S @0 { method M(A) @"x" returns B, }', 'service S @-1 { method M(A) @1.5 returns B, }',
    'struct A { a @99999999999999999999999: u8, }', 'struct A { a @-1: u8, }',
    'struct A { a @0: u8 | range(1e999, 2), }', 'struct A { a @0: u8 | unit [1,2], }',
    'struct A { a @0: u8 | unit unit unit, }', 'struct A { a @0: u8 | range 1 2, }',
    'struct A { a @0: u0, }', 'struct A { a @0: u99, }', 'struct A { a @0: i0, }', 'struct A { a @0: u8 u8, }',
    'device d { services: 5, }', 'device d { services: "x", }', 'impl can for A { id: [1,[2,[3]]], }',
    'impl can for Missing { id: 1, }', 'impl can for A as B as C { id: 1, }',
    'struct A { a @0: u8, } struct A { a @0: u8, }', 'struct A { a @0: u8, a @0: u8, }',
    'mod nonexistent;', 'mod a.b.c.d;', 'mod main;', 'struct A { a @0: Optional[Optional[Optional[B]]], }',
    'struct A { a @0: [[[B, 1], 2], 3], }', 'enum E { A = 1e400, }', 'enum E { A = 99999999999999999999999999, }',
    'struct A { a @0: u8 | range(1, 2) range(3, 4), }', 'struct A { a @0: u8 | unit("x") unit("y"), }',
]
VERSIONS = ['version: "2"', 'version: "3.0"', 'version: 3', 'version: "three"', 'version: ""', 'version "3"', '"3"', 'version:', 'version: "3" version: "3"']


class CpuAlarm(BaseException):
    pass


def _alarm(signum, frame):
    raise CpuAlarm()


def shards(tier):
    return 8 if tier == "quick" else 16


def norm(msg):
    msg = msg.split("\n")[0]
    msg = re.sub(r"'[^']*'", "'_'", msg)
    msg = re.sub(r"\"[^\"]*\"", '"_"', msg)
    msg = re.sub(r"\[[^\]]*\]", "[_]", msg)
    msg = re.sub(r"-?\d+(\.\d+)?", "N", msg)
    return msg[:90]


def _forget_colour_decision():
    try:
        import termcolor.termcolor as _tc

        _tc.can_colorize.cache_clear()
    except Exception:
        pass


class _BareWriter:
    """The minimum a stream needs to receive print(): write and flush, nothing else."""

    def write(self, s):
        return len(s)

    def flush(self):
        pass


def judge(run, kind, parse, text, sources_hint=None):
    """parse() -> (result, logger).  Returns outcome key."""
    case = {"class": kind, "text": text}
    if sources_hint:
        case["files"] = sources_hint
    for attempt in (1, 2):
        signal.signal(signal.SIGVTALRM, _alarm)
        signal.setitimer(signal.ITIMER_VIRTUAL, 20.0)
        t0 = time.process_time()
        try:
            res, lg = parse()
            break
        except CpuAlarm:
            if attempt == 2:
                run.violation("parsing a %d character input did not finish within 20 s CPU (twice)" % len(text), case)
                return
        except KeyboardInterrupt:
            raise
        except BaseException as e:
            run.count("inputs")
            run.violation("%s escaped the parser: %s" % (type(e).__name__, str(e).replace("\n", " ")[:200]), case)
            return
        finally:
            signal.setitimer(signal.ITIMER_VIRTUAL, 0)
    cpu = time.process_time() - t0
    run.extra["max_cpu_s"] = max(run.extra.get("max_cpu_s", 0.0), round(cpu, 3))
    run.count("inputs")
    ok = getattr(res, "is_ok", None)
    if ok is None or not callable(ok):
        run.violation("parser returned %r, neither a schema nor an error value" % (type(res).__name__,), case)
        return
    if res.is_ok():
        run.count("outcome_ok")
        tree = res.unwrap()
        if not hasattr(tree, "structs"):
            run.violation("Ok result does not carry a schema: %r" % (type(tree).__name__,), case)
            return
        run.case(sig="%s|ok" % kind)
        if kind == "valid" and len(text) < 500 and run.counters.get("sampled_ok", 0) < 1:
            run.count("sampled_ok")
            run.sample({"class": kind, "input": text, "outcome": "Ok(schema)"})
        return "ok"
    run.count("outcome_err")
    err = res.err()
    try:
        k = run.counters.get("errors_rendered", 0) % 7
        if k in (3, 5):
            # the diagnostic is a returned string: rendering may not depend on the process having a usable
            # terminal-like sys.stdout (services and GUI hosts run with sys.stdout = None or a bare writer)
            import sys as _sys

            saved = _sys.stdout
            _sys.stdout = None if k == 3 else _BareWriter()
            try:
                rendered = PC.ANSI.sub("", lg.error(err))
            finally:
                _sys.stdout = saved
            run.count("errors_rendered_without_a_terminal_like_stdout")
        else:
            rendered = PC.ANSI.sub("", lg.error(err))
    except KeyboardInterrupt:
        raise
    except BaseException as e:
        run.violation("rendering the error raised %s: %s (error: %s)" % (type(e).__name__, str(e)[:150], repr(err)[:150]), case)
        return
    if not isinstance(rendered, str) or not rendered.strip():
        run.violation("rendered diagnostic is empty", case)
        return
    if run.counters.get("errors_rendered", 0) % 4 == 1:
        # an error value can be rendered again (a caller logs it and shows it); with terminal colours forced
        # on (FORCE_COLOR) the text between the escape codes is the same
        import os as _os

        saved_env = {k: _os.environ.get(k) for k in ("FORCE_COLOR", "NO_COLOR")}
        try:
            again = PC.ANSI.sub("", lg.error(err))
            _os.environ["FORCE_COLOR"] = "1"
            _os.environ.pop("NO_COLOR", None)
            _forget_colour_decision()  # termcolor remembers its first decision per process
            coloured = PC.ANSI.sub("", lg.error(err))
        except KeyboardInterrupt:
            raise
        except BaseException as e:
            run.violation("rendering the same error value again raised %s: %s (error: %s)" % (type(e).__name__, str(e)[:150], repr(err)[:150]), case)
            return
        finally:
            for k, v_ in saved_env.items():
                if v_ is None:
                    _os.environ.pop(k, None)
                else:
                    _os.environ[k] = v_
            _forget_colour_decision()
        if again != rendered or coloured != rendered:
            case["first"] = rendered[:600]
            case["again"] = (again if again != rendered else coloured)[:600]
            run.violation("rendering the same error value %s gives a different diagnostic" % ("a second time" if again != rendered else "with colours forced on"), case)
            return
        run.count("errors_rendered_repeatedly")
    run.count("errors_rendered")
    cites = list(re.finditer(r"\[([^\[\]:\s]+\.fcp):(-?\d+)\]", rendered))
    for ci, m in enumerate(cites):
        fname, line = m.group(1), int(m.group(2))
        src = lg.sources.get(fname)
        run.count("citations_checked")
        if src is None:
            case["rendered"] = rendered
            run.violation("diagnostic cites %s:%d but no such source is registered" % (fname, line), case)
            return
        nlines = len(src.split("\n"))
        if not (1 <= line <= nlines):
            case["rendered"] = rendered
            run.violation("diagnostic cites %s:%d but the source has %d lines" % (fname, line, nlines), case)
            return
        # the source line quoted under a citation ("<n> | <text>") must be that line of that source
        end = cites[ci + 1].start() if ci + 1 < len(cites) else len(rendered)
        q = re.search(r"^%d \| (.*)$" % line, rendered[m.end():end], re.M)
        if q is not None:
            run.count("quoted_lines_checked")
            if q.group(1) != src.split("\n")[line - 1]:
                case["rendered"] = rendered
                run.violation("diagnostic quotes %r as line %d of %s, the source line is %r" % (q.group(1)[:80], line, fname, src.split("\n")[line - 1][:80]), case)
                return
    run.case(sig="%s|err|%s" % (kind, norm(repr(err))))
    key = "sampled_" + kind.split("-")[0]
    if len(text) < 300 and run.counters.get(key, 0) < 1 and kind != "valid":
        run.count(key)
        run.sample({"class": kind, "input": text, "outcome": "Err", "error": repr(err)[:200], "diagnostic_cites": re.findall(r"\[([^\[\]:\s]+\.fcp:-?\d+)\]", rendered)})
    return "err"


def mutate(r, txt):
    toks = TOK.findall(txt)
    for _ in range(r.randint(1, 3)):
        if not toks:
            break
        i = r.randrange(len(toks))
        op = r.random()
        if op < 0.3:
            del toks[i]
        elif op < 0.5:
            toks.insert(i, toks[i])
        elif op < 0.7 and i + 1 < len(toks):
            toks[i], toks[i + 1] = toks[i + 1], toks[i]
        else:
            toks[i] = r.choice(POOL)
    return "".join(toks)


def random_text(r):
    n = r.choice([0, 1, 2, 5, 20, 60, 200])
    mode = r.random()
    if mode < 0.3:
        return "".join(chr(r.randint(0, 127)) for _ in range(n))
    if mode < 0.5:
        return "".join(chr(r.choice([r.randint(0, 127), r.randint(128, 0x2FFF), r.randint(0x1F300, 0x1F6FF), r.randint(0xD7F0, 0xE010)])) for _ in range(n))
    if mode < 0.8:
        return " ".join(r.choice(POOL) for _ in range(n // 2))
    return 'version: "3"\n' + " ".join(r.choice(POOL) for _ in range(n // 2))


_shared = {"logger": None, "n": 0}


def string_parse(text):
    """Two thirds of the inputs get a fresh Logger; one third shares one long-lived Logger (the
    history: many parses and renderings through the same logger object)."""
    _shared["n"] += 1
    if _shared["n"] % 3 == 0:
        if _shared["logger"] is None:
            from fcp.error import Logger

            _shared["logger"] = Logger({})
        lg = _shared["logger"]
        return lambda: PC.parse_string(text, lg)
    return lambda: PC.parse_string(text)


def limited_parse(text, headroom):
    """parse() that runs with only `headroom` stack frames left (sys.setrecursionlimit around the call):
    the interpreter's RecursionError is then raised at a chosen depth INSIDE the front end - a fault
    injected at every level of its call tree as the headroom is swept."""
    import inspect
    import sys as _sys

    inner = string_parse(text)

    def f():
        old = _sys.getrecursionlimit()
        _sys.setrecursionlimit(len(inspect.stack(0)) + headroom)
        try:
            return inner()
        finally:
            _sys.setrecursionlimit(old)

    return f


STDIN_SCRIPT = r"""
import sys
from fcp.parser import get_fcp
from fcp.error import Logger
lg = Logger({})
try:
    res = get_fcp(sys.argv[1], lg)
except BaseException as e:
    print("ESCAPED %s: %s" % (type(e).__name__, str(e)[:150])); sys.exit(0)
if res.is_ok():
    print("OK"); sys.exit(0)
try:
    out = lg.error(res.err())
    print("ERR rendered %d chars" % len(out))
except BaseException as e:
    print("RENDER-RAISED %s: %s" % (type(e).__name__, str(e)[:150]))
"""


ISOLATED_CHILD = r"""
import resource, sys
resource.setrlimit(resource.RLIMIT_CPU, (%d, %d))
from fcp.parser import get_fcp_from_string
from fcp.error import Logger
text = sys.stdin.read()
lg = Logger({})
res = get_fcp_from_string(text, lg)
print("OK" if res.is_ok() else "ERR")
if res.is_err():
    lg.error(res.err())
"""


def isolated_cpu_budget(run):
    """Inputs whose cost could sit inside ONE C-level call (number conversion, regex matching), which an
    in-process timer cannot interrupt: each is parsed in a child process under a kernel CPU-time limit
    (RLIMIT_CPU = 30 s; typical cost 0.05 s).  A child killed by that limit twice is a parse that does not
    terminate in any reasonable number of steps; a child that outlives a 10 minute wall-clock watchdog without
    having used its CPU budget says nothing (inconclusive)."""
    import subprocess
    import sys

    nums = ["1e1000000", "1e99999999", "1e-99999999", "9e999999999999", "1E+20000000", "-3e77777777", "0.5e12345678", "1" + "0" * 20000, "0." + "0" * 20000 + "1"]
    texts = []
    for n in nums:
        texts += ['version: "3"\nstruct A { a @%s: u8, }' % n, 'version: "3"\nstruct A { a @0: [u8, %s], }' % n, 'version: "3"\nenum E { A = %s, }' % n,
                  'version: "3"\nimpl p for A { k: %s, }' % n, 'version: "3"\nstruct A { a @0: u8 | range(%s, 1), }' % n]
    for t in texts[run.shard::run.nshards]:
        case = {"class": "huge-number", "text": t if len(t) < 300 else t[:120] + " ... (%d characters)" % len(t)}
        for attempt in (1, 2):
            try:
                p = subprocess.run([sys.executable, "-c", ISOLATED_CHILD % (30, 40)], input=t, capture_output=True, text=True, timeout=600, env=env.child_env())
            except subprocess.TimeoutExpired:
                run.inconclusive_because("a child parsing a %d character input outlived the 10 minute watchdog" % len(t))
                return
            if p.returncode == 0 and p.stdout.split("\n")[0] in ("OK", "ERR"):
                run.count("inputs_parsed_under_a_kernel_cpu_limit")
                run.case(sig="huge-number|%s" % p.stdout.split("\n")[0])
                break
            if p.returncode in (-24, -9, 152, 137):  # SIGXCPU (soft limit) / SIGKILL (hard limit)
                if attempt == 2:
                    run.violation("parsing a %d character input did not finish within 30 s CPU (twice, in a process of its own)" % len(t), case)
                    return
                continue
            case["stderr"] = p.stderr[-600:]
            run.violation("an exception escaped the parser (child exit %s): %s" % (p.returncode, p.stderr.strip().split("\n")[-1][:200] if p.stderr.strip() else ""), case)
            return


def one_shot_sources(run):
    """The schema arrives through a path that can be read only once (a pipe: /dev/stdin): parsing must still
    return a schema or a renderable error."""
    import subprocess
    import sys as _sys

    texts = [
        'version: "3"\n// c\n// c\nstruct A { a @0: Missing, }\n',
        '// one\n// two\n// three\nversion: "2"\nstruct A { a @0: u8, }\n',
        'version: "3"\nstruct A { a @0: u8, }\n\n\nimpl can for A { id: 1.5.5, }\n',
        'version: "3"\nstruct A { a @0: u8, }\n',
        'version: "3"\n\n\n\nenum E { }\n',
    ]
    for t in texts:
        try:
            p = subprocess.run([_sys.executable, "-c", STDIN_SCRIPT, "/dev/stdin"], input=t, capture_output=True, text=True, timeout=120, env=env.child_env())
        except subprocess.TimeoutExpired:
            run.violation("parsing a schema piped through /dev/stdin did not finish within 120 s", {"class": "one-shot-source", "text": t})
            return
        out = (p.stdout or "").strip().split("\n")[-1] if p.stdout else ""
        run.count("inputs")
        run.count("one_shot_sources")
        if p.returncode != 0 or out.startswith(("ESCAPED", "RENDER-RAISED")) or not out:
            run.violation("schema piped through /dev/stdin: %s" % (out or (p.stderr or "").strip().split("\n")[-1][:200]), {"class": "one-shot-source", "text": t, "stderr": (p.stderr or "")[-800:]})
            return
        run.case(sig="one-shot-source|%s" % out.split()[0])


def recursion_fault_sweep(run):
    texts = [
        'version: "3"\nstruct A { a @0: ' + "[" * 30 + "T" + "]" * 30 + ", }",
        'version: "3"\nstruct A { a @0: ' + "Optional[" * 25 + "u8" + "]" * 25 + " | unit(\"V\"), }",
        'version: "3"\nstruct B { b @0: u8, }\nstruct A { a @0: ' + "[" * 20 + "B" + ", 2]" * 20 + ", }\nimpl can for A { id: " + "[" * 20 + "1" + "]" * 20 + ", }",
        'version: "3"\nenum E { X = 1, }\nservice S @1 { method M(A) @0 returns B, }\ndevice d { k: [[[["x"]]]], }',
    ]
    lo, hi, step = run.pick((24, 330, 2), (20, 520, 1))
    for headroom in range(lo, hi, step):
        if not run.mine(headroom):
            continue
        t = texts[headroom % len(texts)]
        judge(run, "stack-headroom", limited_parse(t, headroom), t + "\n// parsed with %d stack frames of headroom" % headroom)
        run.count("parses_with_limited_stack")


def run(run):
    import fcp.parser as P

    reach = Reach([P]).start()
    tmp = env.scratch("c11")
    try:
        nvalid = run.pick(40, 900)
        for k in range(nvalid):
            if not run.mine(k):
                continue
            r = run.rng("valid", k)
            decls = descr.gen_description(r)
            style = S.Style(run.rng("style", k)) if k % 2 else S.Style()
            txt = S.print_schema(decls, style)
            if judge(run, "valid", string_parse(txt), txt) != "ok":
                continue
            cuts = range(len(txt)) if not run.quick and len(txt) < 400 else sorted(r.sample(range(len(txt)), min(run.pick(60, 200), len(txt))))
            for c in cuts:
                judge(run, "prefix", string_parse(txt[:c]), txt[:c])
            for _ in range(run.pick(50, 120)):
                m = mutate(r, txt)
                judge(run, "mutant", string_parse(m), m)
            # faults inside an imported module (and EOF inside a module)
            if k % 4 == 0:
                d = os.path.join(tmp, "m%d" % k)
                os.makedirs(os.path.join(d, "sub"), exist_ok=True)
                for j in range(run.pick(6, 16)):
                    sel = r.random()
                    if sel < 0.4:
                        body = txt[: r.randrange(len(txt))]
                        cls = "module-prefix"
                    elif sel < 0.8:
                        body = mutate(r, txt)
                        cls = "module-mutant"
                    else:
                        # (pushed down by 0..12 lines: the module is then longer than the file importing it)
                        body = 'version: "3"\n' + "// pad\n" * r.choice([0, 0, 3, 7, 12]) + r.choice(LITERALS)
                        cls = "module-literal"
                    nested = r.random() < 0.4
                    open(os.path.join(d, "sub", "inner.fcp"), "w").write(body)
                    if nested:
                        open(os.path.join(d, "outer.fcp"), "w").write('version: "3"\nmod sub.inner;\n')
                        main = 'version: "3"\n\n\nmod outer;\nstruct Tail { a @0: u8, }\n'
                    else:
                        main = 'version: "3"\n// c\nmod sub.inner;\nstruct Tail { a @0: u8, }\n'
                    open(os.path.join(d, "main.fcp"), "w").write(main)
                    p = os.path.join(d, "main.fcp")
                    judge(run, cls + ("-nested" if nested else ""), lambda p=p: PC.parse_file(p), main, {"sub/inner.fcp": body})
                shutil.rmtree(d, ignore_errors=True)
        isolated_cpu_budget(run)
        if run.shard == 0:
            one_shot_sources(run)
            for l in LITERALS:
                t = 'version: "3"\n' + l
                judge(run, "literal", string_parse(t), t)
            for v in VERSIONS:
                t = v + "\nstruct A { a @0: u8, }"
                judge(run, "version", string_parse(t), t)
            for depth in (10, 40, 100, 200, 300, 400, 1000, 5000):
                for opener, closer in (("[", "]"), ("Optional[", "]"), ("[", ", 2]")):
                    t = 'version: "3"\nstruct A { a @0: ' + opener * depth + "u8" + closer * depth + ", }"
                    judge(run, "deep", string_parse(t), t)
                t = 'version: "3"\nimpl p for A { k: ' + "[" * depth + "1" + "]" * depth + ", }"
                judge(run, "deep", string_parse(t), t)
            for nbs in (10, 25, 40, 60, 200):
                bs = "\\" * nbs
                for t in ['version: "3"\nstruct A { a @0: u8 | unit("' + bs,
                          'version: "3"\nstruct A { a @0: u8 | unit("x' + bs + 'y',
                          'version: "3"\nimpl p for A { k: "' + bs + ', }',
                          'version: "3"\nstruct A { a @0: u8 | unit("' + bs + '"), }',
                          'version: "' + bs]:
                    judge(run, "backslashes", string_parse(t), t)
                    if run.nviol:
                        break
                if run.nviol:
                    break
            # lone surrogates (what text decoded with errors="surrogateescape" / "surrogatepass" carries): a str like
            # any other, but one that cannot be encoded as UTF-8
            for sur in ("\ud800", "\udfff", "\udc80"):
                for t in ['version: "3"\n// note %s\nstruct A { a @0: u8, }' % sur,
                          'version: "3"\nstruct A { a @0: u8 | unit("%s"), }' % sur,
                          'version: "3"\nstruct A { a @0: u8, } %s' % sur,
                          'version: "3"\nstruct A%s { a @0: u8, }' % sur,
                          'version: "3"\n/* %s */ impl p for A { k: "%s", }' % (sur, sur),
                          sur, 'version: "%s"' % sur]:
                    judge(run, "surrogate", string_parse(t), t)
            # characters that mean something to string formatting (%-style, str.format, f-string, Template), as the
            # first unexpected character of a syntax error and inside literals that error messages echo
            for fc in ["%", "%s", "%d", "%(x)s", "100%", "%%", "{", "}", "{}", "{0}", "{x}", "{0.__class__}", "$x", "${x}", "\\N{dash}", "%n", "{:>99999999}"]:
                for t in ['version: "3"\n' + fc, 'version: "3"\nstruct A { a @0: u8 | unit(' + fc + '), }', 'version: "3"\nenum E { A = "' + fc + '", }',
                          'version: "3"\nstruct A { a @"' + fc + '": u8, }', 'version: "3"\nstruct A { a @0: Missing' + fc.replace("%", "") + ', }' if fc.isalnum() else 'version: "3"\nimpl p for A { k: ' + fc + ' }',
                          'version: "' + fc + '"', 'version: "3"\nstruct A { a @0: u8 | ' + fc + '("x"), }']:
                    judge(run, "format-chars", string_parse(t), t)
            for t in ["", " ", "\n", "\x00", "﻿", "//", "/*", "/* */", "version", "version:", 'version: "3', 'version: "3"', 'version: "3"\n' * 3]:
                judge(run, "tiny", string_parse(t), t)
        recursion_fault_sweep(run)
        nrand = run.pick(800, 20000)
        for k in range(nrand):
            if not run.mine(k):
                continue
            t = random_text(run.rng("random", k))
            judge(run, "random", string_parse(t), t)
    finally:
        shutil.rmtree(tmp, ignore_errors=True)
        reach.stop()
    run.extra["reach"] = {k: v for k, v in reach.summary(100).items() if k in ("_get_fcp", "FcpV2Transformer.mod_expr", "get_fcp_from_string", "get_fcp", "_get_lark_error_position")}
    for key in ("class_counts",):
        pass


def conclude(run):
    run.require("inputs_parsed_under_a_kernel_cpu_limit")
    run.require("inputs", "outcome_ok", "outcome_err", "errors_rendered", "citations_checked", "quoted_lines_checked")


def replay(run, case):
    if case.get("files"):
        tmp = env.scratch("c11r")
        try:
            for rel, body in case["files"].items():
                p = os.path.join(tmp, rel)
                os.makedirs(os.path.dirname(p), exist_ok=True)
                open(p, "w").write(body)
            if "mod outer;" in case["text"]:
                open(os.path.join(tmp, "outer.fcp"), "w").write('version: "3"\nmod sub.inner;\n')
            p = os.path.join(tmp, "main.fcp")
            open(p, "w").write(case["text"])
            judge(run, case["class"], lambda: PC.parse_file(p), case["text"], case["files"])
        finally:
            shutil.rmtree(tmp, ignore_errors=True)
    elif case["class"] == "one-shot-source":
        one_shot_sources(run)
    elif case["class"] == "stack-headroom":
        m = re.search(r"// parsed with (\d+) stack frames of headroom", case["text"])
        text = case["text"].split("\n// parsed with")[0]
        # the fault position depends on the caller's own stack depth: replay a small window around it
        for h in range(max(20, int(m.group(1)) - 12), int(m.group(1)) + 13):
            judge(run, "stack-headroom", limited_parse(text, h), text + "\n// parsed with %d stack frames of headroom" % h)
    else:
        judge(run, case["class"], string_parse(case["text"]), case["text"])
