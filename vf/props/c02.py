"""C02 - the Python codec emits and accepts exactly the canonical wire format."""

from .. import env
from ..gen import schema as S
from ..ref import codec as ref
from . import codec_common as CC

PROPERTY = "C02"
LEVEL = "exploration"
RULE = (
    "Same workload as C01 (alignment grid + containers + random type trees + out-of-order ids + "
    "counts >= 256 / >= 65536 on the thorough tier).  Oracle: an independent reference codec "
    "(vf/ref/codec.py, no fcp imports) that must first reproduce all 26 project vectors of "
    "tests/standardized/fcp_tests.json byte for byte.  Checked per case: encode(v) == ref bytes, "
    "decode(ref bytes) == v, len == ceil(bits/8).  The 26 vectors are also pushed through the "
    "Python codec itself.  distinct = distinct (shape signature, coarse value class)."
)
ASSUMPTIONS = [
    "the reference codec is the trusted base: it is 60 lines, has no fcp imports and reproduces the 26 project vectors",
    "strings are valid UTF-8 text (ASCII control characters included); signalling NaNs are not generated; values are in range",
]


def shards(tier):
    return 8 if tier == "quick" else 16


def check_case(run, fcp, sch, name, v, text, sig=None):
    from fcp import serde

    case = {"schema": text, "struct": name, "value": v, "description": sch.decls, "shared_subobjects": CC.shares_objects(v)}
    want = ref.encode(sch, name, v)
    case["canonical"] = want
    import copy as _copy

    pristine = _copy.deepcopy(v)
    try:
        raw = serde.encode(fcp, name, v)
        b = bytes(raw)
    except Exception as e:
        run.violation("encode raised %s: %s" % (type(e).__name__, e), case)
        return
    if not CC.earlier_results_intact(run, raw, b, case):
        return
    run.count("encode_compared")
    if not ref.same(v, pristine):
        run.violation("encode() modified the value it was given (the caller's object)", dict(case, value=pristine, value_after_encode=v))
        return
    if b != want:
        case["bytes"] = b
        run.violation("encode(v) differs from the canonical wire bytes", case)
        return
    try:
        d = serde.decode(fcp, name, bytearray(want))
    except Exception as e:
        run.violation("decode(canonical bytes) raised %s: %s" % (type(e).__name__, e), case)
        return
    run.count("decode_compared")
    if not ref.same(d, v):
        model, n = CC.signed_min_model(sch, ("struct", name), v)
        if n and ref.same(d, model):
            run.known_finding(CC.K_SIGNED_MIN, "decode(canonical bytes) returns +2^(N-1) for %d signed leaves holding -2^(N-1)" % n, {"struct": name, "value": v, "decoded": d})
            run.case(sig=sig)
            return
        case["decoded"] = d
        run.violation("decode(canonical bytes) != v", case)
        return
    run.case(sig=sig)
    if len(run.samples) < 3 and len(text) < 1500:
        run.sample({"schema": text, "struct": name, "value": v, "canonical_bytes": want})


def run_vectors(run):
    n, problems, used = ref.self_check(env.REPO)
    if problems or n < 20:
        run.inconclusive_because("reference codec fails its self-check on the project vectors: %s" % problems[:3])
        return
    run.count("ref_selfcheck_vectors", n)
    if run.shard != 0:
        return
    cache = {}
    for schema_file, decls, name, value, want in used:
        text = S.print_schema(decls)
        if text not in cache:
            cache[text] = CC.parse(text)
        res = cache[text]
        if res.is_err():
            run.violation("front end rejected the vector schema %s" % schema_file, {"schema": text})
            continue
        check_case(run, res.unwrap(), S.Sch(decls), name, value, text, sig="vector/%s/%s/%s" % (schema_file, name, want.hex()))
        run.count("project_vectors_through_python_codec")


def run(run):
    run_vectors(run)
    if run.inconclusive:
        return
    reach = CC.start_reach()
    units = CC.schema_units(run)
    for i, unit in enumerate(units):
        if not run.mine(i):
            continue
        text, sch, cases = CC.unit_cases(run, unit)
        res = CC.parse(text)
        if res.is_err():
            run.violation("front end rejected a well-formed codec schema: %r" % (res.err(),), {"schema": text})
            continue
        fcp = res.unwrap()
        for ci, (name, v, sig) in enumerate(cases):
            if ci % 5 == 2:
                CC.provoke_faults(run, fcp, sch, name, v, ci)
            check_case(run, fcp, sch, name, v, text, sig)
            if ci % 4 == 1:
                # the same value with its equal sub-values being one shared object (no cycle)
                sv = CC.intern_equal(v)
                if CC.shares_objects(sv):
                    check_case(run, fcp, sch, name, sv, text, sig + "|shared-subobjects")
                    run.count("values_with_shared_subobjects")
        del fcp, res
    CC.address_reuse_history(run, lambda fcp, sch, name, v, text, sig: check_case(run, fcp, sch, name, v, text, sig), run.pick(120, 1200))
    CC.edited_schema_history(run, lambda fcp, sch, name, v, text, sig: check_case(run, fcp, sch, name, v, text, sig), run.pick(20, 200))
    reach.stop()
    run.extra["reach"] = reach.summary(40)


def conclude(run):
    run.require("encode_compared", "decode_compared", "ref_selfcheck_vectors", "project_vectors_through_python_codec")


def replay(run, case):
    if "earlier_call" in case:
        # history: the earlier encode() whose result the caller still holds
        from fcp import serde

        e = case["earlier_call"]
        r0 = CC.parse(e["schema"])
        if r0.is_ok():
            raw = serde.encode(r0.unwrap(), e["struct"], e["value"])
            CC.earlier_results_intact(run, raw, bytes(raw), e)
    res = CC.parse(case["schema"])
    if res.is_err():
        run.violation("front end rejected the schema: %r" % (res.err(),), case)
        return
    check_case(run, res.unwrap(), S.Sch(case["description"]), case["struct"], CC.intern_equal(case["value"]) if case.get("shared_subobjects") else case["value"], case["schema"])
