"""C17 - generated artefacts are a deterministic function of the schema."""

import json
import os
import re
import shutil
import subprocess
import sys

from .. import env
from ..gen import schema as S, cansch, descr

PROPERTY = "C17"
LEVEL = "exploration"
RULE = (
    "Schemas (CAN bindings over several buses/devices/protocols, enums, nested structs, services, a "
    "module import) are written to disk and generated with cpp, dbc, can_c and nop.  (a) fresh "
    "interpreters under PYTHONHASHSEED in {0,1,2,3} + 2 seeded random values: the {path: contents} maps "
    "(documented '// Generated using fcp ... on ... by ...@...' stamp line removed) must all be equal; "
    "(b) history: a long-lived process performs 5-30 random parse / truncated-parse / verify / generate / "
    "reflect operations on OTHER schemas (through get_fcp with its default, process-wide logger; in half "
    "of the histories with one long-lived Generator object per plug-in) before generating the target; (c) reuse: the same tree "
    "object generates twice with each generator, cpp again after dbc and can_c, and every generator again after the Python codec has encoded / decoded a value of every struct with that tree, and into an output directory that already holds the files of an earlier run (one of them with older contents); (d) address reuse: one process generates the schemas in turns for 6-12 rounds, every tree dropped and collected before the next is parsed (trees land on addresses of earlier trees).  Every map is "
    "compared with the PYTHONHASHSEED=0 fresh-process map.  distinct = (schema, generator, "
    "configuration) with a non-empty file map."
)
ASSUMPTIONS = [
    "only the documented stamp line may differ between runs; the order of the returned list is recorded, not judged",
]
CHILD = os.path.join(os.path.dirname(__file__), "c17_child.py")


def shards(tier):
    return 4 if tier == "quick" else 16


def make_schema(r, i):
    decls = cansch.gen_can_schema(r, prefix="D%d" % i, max_bindings=4, flat=True, buses=True, big_endian=False, mux=False, devices=True,
                                  enum_maxes=[1, 2, 3, 5, 7, 200, 300])
    if i % 4 == 2:
        # device / bus names with characters that are not legal in identifiers (they are strings in the
        # schema; whatever a generator derives from them must not depend on the process)
        odd = {"ecu": "ecu-1", "bms": "bms.front", "inv": "inv 2", "dash": "dash+rear", "can0": "can-0", "pt": "p.t", "x1": "x 1"}
        for d in decls:
            if d["kind"] == "impl":
                d["items"] = [(it[0], it[1], ("s", odd.get(it[2][1], it[2][1]))) if it[0] == "field" and it[1] in ("device", "bus") else it for it in d["items"]]
    if i % 4 in (1, 3):
        # a binding whose signals are multiplexed by TWO different selector signals
        sd = {d["name"]: d for d in decls if d["kind"] == "struct"}
        for d in decls:
            if d["kind"] == "impl" and d["protocol"] == "can":
                fs = [f["name"] for f in sd[d["type"]]["fields"] if f["type"][0] in ("u", "i")]
                taken = {it[1] for it in d["items"] if it[0] == "signal"}
                fs = [f for f in fs if f not in taken]
                if len(fs) >= 4:
                    d["items"].append(("signal", fs[2], [("mux_count", 2), ("mux_signal", ("s", fs[0]))]))
                    d["items"].append(("signal", fs[3], [("mux_count", 3), ("mux_signal", ("s", fs[1]))]))
                    break
    if i % 3 == 2:
        # a CAN binding of a struct that is not fixed-size (an array of strings): dbc and can_c give up on it
        # part-way - in every process alike - and whatever they leave in the tree must not show in cpp / nop
        decls.append({"kind": "struct", "name": "D%dText" % i, "fields": [{"name": "n", "id": 0, "type": ("u", 8)}, {"name": "lines", "id": 1, "type": ("arr", ("str",), 2)}, {"name": "z", "id": 2, "type": ("u", 8)}]})
        decls.append({"kind": "impl", "protocol": "can", "type": "D%dText" % i, "name": None, "items": [("field", "id", 2040), ("field", "device", ("s", "ecu"))]})
    # every schema declares an enum of the SAME name (Mode) and a struct field type of the same name (Level), of
    # another width class each time: whatever a generator remembers per type name belongs to one schema
    mx = [3, 300, 70000, 1, 255, 256][i % 6]
    decls.append({"kind": "enum", "name": "Mode", "values": [("ModeOff", 0), ("ModeTop", mx)]})
    decls.append({"kind": "struct", "name": "Level", "fields": [{"name": "v", "id": 0, "type": ("u", [3, 12, 20, 8, 9, 33][i % 6])}]})
    decls.append({"kind": "struct", "name": "D%dModeMsg" % i, "fields": [{"name": "m", "id": 0, "type": ("enum", "Mode")}, {"name": "lv", "id": 1, "type": ("struct", "Level")},
                                                                       {"name": "k", "id": 2, "type": ("u", 4)}]})
    decls.append({"kind": "impl", "protocol": "can", "type": "D%dModeMsg" % i, "name": None, "items": [("field", "id", 2020), ("field", "device", ("s", "ecu"))]})
    if i % 4 == 0:
        # a CAN message whose flattened signal names collide: nested pos::x / pos::y next to plain pos_x, and an
        # unrolled array arr_0 next to a field written arr_0 (whatever a generator does about the clash, it does
        # the same in every process and on every call)
        decls.append({"kind": "struct", "name": "D%dPos" % i, "fields": [{"name": "x", "id": 0, "type": ("i", 12)}, {"name": "y", "id": 1, "type": ("i", 12)}]})
        decls.append({"kind": "struct", "name": "D%dClash" % i, "fields": [
            {"name": "pos", "id": 0, "type": ("struct", "D%dPos" % i)}, {"name": "pos_x", "id": 1, "type": ("u", 8)},
            {"name": "arr", "id": 2, "type": ("arr", ("u", 4), 2)}, {"name": "arr_0", "id": 3, "type": ("u", 8)}, {"name": "pos_y", "id": 4, "type": ("u", 8)}]})
        decls.append({"kind": "impl", "protocol": "can", "type": "D%dClash" % i, "name": None, "items": [("field", "id", 2030), ("field", "device", ("s", "ecu"))]})
    structs = [d["name"] for d in decls if d["kind"] == "struct"]
    # a second protocol on some struct, services for the cpp generator
    decls.append({"kind": "impl", "protocol": r.choice(["uart", "lin", "eth"]), "type": structs[0], "name": None, "items": [("field", "id", 1)]})
    if r.random() < 0.5:
        decls.append({"kind": "impl", "protocol": r.choice(["spi", "usb"]), "type": structs[-1], "name": "Alt%d" % i, "items": [("field", "port", 2)]})
    if i % 3 == 1:
        # protocol names that differ only in spelling style are different protocols (different files)
        pairs = [("canFd", "can_fd"), ("Uart", "uart"), ("flexRay", "flex_ray"), ("LIN", "lin"), ("Eth", "eth"), ("spiBus", "spi_bus")]
        a, b = pairs[(i // 3) % len(pairs)]
        decls.append({"kind": "impl", "protocol": a, "type": structs[0], "name": "StyleA%d" % i, "items": [("field", "k", 1)]})
        decls.append({"kind": "impl", "protocol": b, "type": structs[-1], "name": "StyleB%d" % i, "items": [("field", "k", 2)]})
    if r.random() < 0.7:
        decls.append({"kind": "service", "name": "Svc%d" % i, "id": r.randint(0, 200), "methods": [
            {"name": "Get", "id": 0, "input": structs[0], "output": structs[-1]},
            {"name": "Put", "id": 1, "input": structs[-1], "output": structs[-1]},
        ][: r.randint(1, 2)]})
        # further services (their ids and names end up in one synthesized enum)
        extra = []
        for k in range(r.randint(0, 3)):
            extra.append("Aux%d_%s" % (i, "abcd"[k]))
            decls.append({"kind": "service", "name": extra[-1], "id": 201 + k, "methods": [{"name": "Do", "id": k, "input": structs[0], "output": structs[0]}]})
        decls.append({"kind": "device", "name": "dev%d" % i, "fields": [("services", [("id", n) for n in ["Svc%d" % i] + extra])]})
    return decls


def failure_expected(text, g):
    """Schemas that a generator is SUPPOSED to give up on (the same way in every process): a variable-size CAN
    binding for dbc / can_c, and the schema nested beyond what the front end walks for every generator."""
    if "DeepNest" in text:
        return True
    if g.split("/")[0] == "dbc" and re.search(r"struct D\d+Clash\b", text) is not None:
        return True  # two signals of one name in one message: the DBC library refuses to write that
    return g.split("/")[0] in ("dbc", "can_c") and re.search(r"struct D\d+Text\b", text) is not None


def run_child(job, hashseed, tmp, tag):
    jp = os.path.join(tmp, "job_%s.json" % tag)
    json.dump(job, open(jp, "w"))
    envd = env.child_env({"PYTHONHASHSEED": str(hashseed), "PYTHONDONTWRITEBYTECODE": "1"})
    p = subprocess.run([sys.executable, CHILD, jp], cwd=env.VERIF, env=envd, capture_output=True, text=True, timeout=1200)
    if p.returncode != 0:
        return None, p.stderr[-800:]
    try:
        return json.loads(p.stdout), None
    except ValueError:
        return None, "child printed no JSON: %s" % p.stdout[-300:]


def compare(run, base, other, schema_texts, config, what):
    for path, gens in base.items():
        for g, fmap in gens.items():
            cfg = config
            omap = other.get(path, {}).get(g if what is None else what(g))
            if omap is None:
                continue
            run.count("maps_compared")
            if ("<exception>" in fmap or "<error>" in fmap) and not failure_expected(schema_texts[path], g):
                run.violation("generator %s failed in the reference run: %s" % (g, fmap), {"schema": schema_texts[path]})
                return False
            if fmap != omap:
                diff = sorted(k for k in set(fmap) | set(omap) if fmap.get(k) != omap.get(k))
                run.violation(
                    "generator %s: %s yields different artefacts than a fresh PYTHONHASHSEED=0 process (files: %s)" % (g, cfg, diff[:6]),
                    {"schema": schema_texts[path], "generator": g, "configuration": cfg, "differing_files": diff, "reference_files": sorted(fmap), "other_files": sorted(omap)},
                )
                return False
            if fmap:
                run.case(sig="%s|%s|%s" % (os.path.basename(os.path.dirname(path)), g, cfg))
    return True


def run(run):
    tmp = env.scratch("c17")
    try:
        n = run.pick(12, 160)
        mine = [i for i in range(n) if run.mine(i)]
        if not mine:
            return
        paths = []
        texts = {}
        for i in mine:
            r = run.rng("schema", i)
            decls = make_schema(r, i)
            d = os.path.join(tmp, "s%d" % i)
            os.makedirs(d)
            if i % 3 == 0:
                # first two declarations live in a module
                k = next(j for j, x in enumerate(decls) if x["kind"] == "struct") + 1
                open(os.path.join(d, "part.fcp"), "w").write(S.print_schema(decls[:k]))
                text = S.print_schema([{"kind": "mod", "path": ["part"]}] + decls[k:])
            else:
                text = S.print_schema(decls)
            if i % 2 == 0:
                # parameters spelled the terse way the grammar allows (no parentheses, a bare word as value, after
                # another parameter): `| range(0, 6000) | unit rpm,` - text with more than one possible derivation
                text = re.sub(r'\|unit\("(rpm|V|C|kg)"\),', r'| range(0, 6000) | unit \1,', text)
                run.count("schemas_with_terse_parameters", len(re.findall(r"\| unit (rpm|V|C|kg),", text)) and 1)
            p = os.path.join(d, "main.fcp")
            open(p, "w").write(text)
            paths.append(p)
            texts[p] = text
        if run.shard == 0:
            # one schema nested deeper than the front end walks (it is rejected - in a fresh process and just the
            # same after any amount of generating in the process); last in the list, so that it always comes
            # after other generations
            d = os.path.join(tmp, "deep")
            os.makedirs(d)
            text = 'version: "3"\nstruct DeepNest { a @0: ' + "[" * 300 + "u8" + ", 1]" * 300 + ", }\nimpl can for DeepNest { id: 1, }\n"
            p = os.path.join(d, "main.fcp")
            open(p, "w").write(text)
            paths.append(p)
            texts[p] = text[:200] + " ... DeepNest (300 levels)"
            run.count("schemas_nested_beyond_the_front_end")
        base, err = run_child({"mode": "fresh", "schemas": paths}, 0, tmp, "base")
        if base is None:
            run.inconclusive_because("reference child failed: %s" % err)
            return
        for p_ in paths:
            if "DeepNest" in texts[p_]:
                # its reference is a process that has done NOTHING else before
                alone, err = run_child({"mode": "fresh", "schemas": [p_]}, 0, tmp, "deep-alone")
                if alone is None:
                    run.inconclusive_because("reference child failed: %s" % err)
                    return
                base["results"][p_] = alone["results"][p_]
        run.count("fresh_processes")
        if len(run.samples) < 2:
            p0 = paths[0]
            run.sample({"schema": texts[p0], "files_per_generator": {g: sorted(m) for g, m in base["results"][p0].items()}})
        rr = run.rng("hashseeds")
        seeds = [1, 2, 3] + [rr.randint(4, 2 ** 32 - 1) for _ in range(2)]
        for hs in seeds:
            out, err = run_child({"mode": "fresh", "schemas": paths}, hs, tmp, "hs%d" % hs)
            if out is None:
                run.inconclusive_because("child with PYTHONHASHSEED=%d failed: %s" % (hs, err))
                return
            run.count("fresh_processes")
            if not compare(run, base["results"], out["results"], texts, "hashseed=%d" % hs, None):
                return
        for k in range(run.pick(2, 4)):
            hs = [0, seeds[k % len(seeds)]][k % 2]
            out, err = run_child({"mode": "history", "schemas": paths, "seed": run.seed * 1000 + k, "reuse_generators": k % 2 == 1}, hs, tmp, "hist%d" % k)
            if out is None:
                run.inconclusive_because("history child failed: %s" % err)
                return
            run.count("history_processes")
            run.count("history_operations", sum(len(v) for v in out.get("histories", {}).values()))
            if not compare(run, base["results"], out["results"], texts, "after-history", None):
                return
        out, err = run_child({"mode": "address-reuse", "schemas": paths, "rounds": run.pick(6, 12)}, seeds[0], tmp, "addr")
        if out is None:
            run.inconclusive_because("address-reuse child failed: %s" % err)
            return
        run.count("address_reuse_processes")
        run.count("trees_generated_in_sequence", out.get("trees", 0))
        run.count("trees_at_a_reused_address", out.get("trees_at_a_reused_address", 0))
        run.count("same_offset_revisions_generated_first", out.get("same_offset_revisions_generated_first", 0))
        for p_, per in out["results"].items():
            extra = sorted(k for k in per if "/differs-in-round-" in k)
            if extra:
                run.violation("one process generating the same schemas in turns: %s yields different artefacts from one round to another" % extra[0].split("/")[0],
                              {"schema": texts[p_], "configuration": "address-reuse", "differing": extra[:4]})
                return
        if not compare(run, base["results"], out["results"], texts, "schemas-in-turns-in-one-process", None):
            return
        out, err = run_child({"mode": "reuse", "schemas": paths}, 0, tmp, "reuse")
        if out is None:
            run.inconclusive_because("reuse child failed: %s" % err)
            return
        run.count("reuse_processes")
        for variant in ("first", "second"):
            if not compare(run, base["results"], out["results"], texts, "same-tree-" + variant, lambda g, v=variant: g + "/" + v):
                return
        for p_, per in out["results"].items():
            if "<exception>" in per.get("codec-uses", {}):
                run.inconclusive_because("the codec-use step of the reuse history failed: %s" % per["codec-uses"]["<exception>"])
                return
        if not compare(run, base["results"], out["results"], texts, "same-tree-after-the-python-codec-used-it", lambda g: g + "/after-codec"):
            return
        if not compare(run, base["results"], out["results"], texts, "output-directory-already-holds-an-earlier-run", lambda g: g + "/into-written-dir"):
            return
        cpp_only = {p: {"cpp": m["cpp"]} for p, m in base["results"].items()}
        if not compare(run, cpp_only, out["results"], texts, "cpp-after-dbc-and-can_c-on-the-same-tree", lambda g: "cpp/after-others"):
            return
    finally:
        shutil.rmtree(tmp, ignore_errors=True)


def conclude(run):
    run.require("address_reuse_processes", "fresh_processes", "history_processes", "history_operations", "reuse_processes", "maps_compared")


def replay(run, case):
    run.inconclusive_because("C17 cases are replayed by re-running the check with the recorded seed (the schema text is in the replay file)")
