"""C12 - reflection is a lossless, faithful description of the schema."""

import os

from .. import env
from ..gen import schema as S, descr
from ..ref import codec as ref, reflect as RR, minifcp
from ..mon.reach import Reach
from . import parse_common as PC

PROPERTY = "C12"
LEVEL = "exploration"
RULE = (
    "Random schema descriptions (every node kind; fields with and without unit()/range(); bindings "
    "with extension fields of every value form and signal blocks; services; type nestings to depth 4) "
    "are printed (plain layout: one declaration per line) and parsed by the real front end.  "
    "Monitors: fcp.reflection() must not raise; serde.encode(get_reflection_schema(), 'Fcp', record) "
    "must succeed and equal the reference codec's bytes under the repository's reflection.fcp (read by "
    "an own mini reader); decode must return a record equal to the original (floats by bits); "
    "faithfulness: the record minus 'meta' equals the expected record computed from the description "
    "(type chains, units, ranges, enumerators, bindings with str() of every declared value, services); "
    "every meta cites the declaration's own line of the source; for a few schemas per run the documented "
    "`python -m fcp encode` command line is executed and its output file compared; for every third "
    "schema the same tree object is first used by 2-6 other consumers (verifier, packed layouts, the "
    "dbc / can_c / cpp / nop generators) and reflected afterwards; every fifth case adds a schema whose enumerator values (negative ones too), array sizes, field / service / method ids sit at and beyond the 32-bit widths of reflection.fcp.  distinct = grammar-feature set of "
    "the description."
)
ASSUMPTIONS = [
    "integers wider than the 32-bit fields reflection.fcp gives them are judged against the defect model of known finding reflection-integers-truncated-to-32-bits",
    "devices are not part of the reflection schema (reflection.fcp has no Device struct)",
    "extension values are reflected as python str() of the parsed value",
]


K_NARROW = "reflection-integers-truncated-to-32-bits"
K_SIGNED_MIN = "serde-signed-min-decodes-positive"


def narrowed(rec):
    """Defect model of known finding K_NARROW: reflection.fcp stores enumerator values as i32 and array
    sizes / field ids / service ids / method ids as u32, and the encoder keeps the low 32 bits of
    anything wider.  Returns (record as reflection.fcp can hold it, list of (path, declared value))."""
    import copy

    rec2 = copy.deepcopy(rec)
    lost = []

    def u32(d, key, path):
        v = d[key]
        if isinstance(v, int) and not 0 <= v < 2 ** 32:
            lost.append((path + "/" + key, v))
            d[key] = v % 2 ** 32

    for e in rec2.get("enums", []):
        for en in e["enumeration"]:
            v = en["value"]
            if isinstance(v, int) and not -(2 ** 31) <= v < 2 ** 31:
                lost.append(("enum %s/%s" % (e["name"], en["name"]), v))
                en["value"] = (v + 2 ** 31) % 2 ** 32 - 2 ** 31
    for st in rec2.get("structs", []):
        for f in st["fields"]:
            u32(f, "field_id", "struct %s/%s" % (st["name"], f["name"]))
            for t in f["type"]:
                u32(t, "size", "struct %s/%s/type" % (st["name"], f["name"]))
    for sv in rec2.get("services", []):
        u32(sv, "id", "service %s" % sv["name"])
        for m in sv["methods"]:
            u32(m, "id", "service %s/%s" % (sv["name"], m["name"]))
    return rec2, lost


def signed_min_model(rec):
    """Known finding K_SIGNED_MIN applied to the only i32 field of reflection.fcp that a schema controls."""
    import copy

    rec2 = copy.deepcopy(rec)
    hit = False
    for e in rec2.get("enums", []):
        for en in e["enumeration"]:
            if en["value"] == -(2 ** 31):
                en["value"] = 2 ** 31
                hit = True
    return rec2, hit


def shards(tier):
    return 8 if tier == "quick" else 16


_cache = {}


def reflection_schema():
    if "s" not in _cache:
        from fcp.reflection import get_reflection_schema

        real = get_reflection_schema().unwrap()
        path = os.path.join(env.REPO, "src", "fcp", "reflection", "reflection.fcp")
        mine = S.Sch(minifcp.read(open(path).read()))
        _cache["s"] = (real, mine)
    return _cache["s"]


def unrolled_leaves(decls):
    """Upper bound of the number of leaves the packed encoder creates when it unrolls the arrays of
    the largest struct (array sizes multiply): consumers that unroll are skipped for huge schemas."""
    sch = S.Sch(decls)
    memo = {}

    def count(t):
        k = t[0]
        if k == "arr":
            return t[2] * count(t[1])
        if k in ("dyn", "opt"):
            return count(t[1])
        if k == "struct":
            if t[1] not in memo:
                memo[t[1]] = 0
                memo[t[1]] = sum(count(f["type"]) for f in sch.structs.get(t[1], []))
            return memo[t[1]]
        return 1

    return max([count(("struct", n)) for n in sch.structs] or [0])


def huge_options(decls):
    """True when a binding carries a numeric option value beyond 10^5 (mux_count: 1000000000000): the CAN back ends take such
    numbers for counts and positions and would enumerate them - consumers that do are left out of the history then."""
    def big(v):
        if isinstance(v, list):
            return any(big(x) for x in v)
        if isinstance(v, tuple) and v and v[0] == "num":
            return abs(v[1]) > 10 ** 5
        return isinstance(v, (int, float)) and not isinstance(v, bool) and abs(v) > 10 ** 5

    for d in decls:
        if d["kind"] == "impl":
            for it in d["items"]:
                if it[0] == "field" and big(it[2]):
                    return True
                if it[0] == "signal" and any(big(v) for _k, v in it[2]):
                    return True
    return False


def use_tree(fcp, r, small=True):
    """History: other consumers use the SAME tree object before it is reflected (verification,
    packed layouts, every generator).  They may fail on arbitrary schemas; that is ignored - the
    reflection taken afterwards must still describe the schema as declared."""
    import importlib
    import shutil
    from fcp.verifier import make_general_verifier
    from fcp.encoding import make_encoder, PackedEncoderContext

    log = []
    tmp = env.scratch("c12use")
    try:
        ops = ["verify", "layout", "dbc", "can_c", "cpp", "nop"] if small else ["verify", "cpp", "nop"]
        r.shuffle(ops)
        for op in ops[: r.randint(2, 6)]:
            try:
                if op == "verify":
                    make_general_verifier().verify(fcp)
                elif op == "layout":
                    enc = make_encoder("packed", fcp, PackedEncoderContext().with_unroll_arrays(True))
                    for impl in fcp.impls:
                        try:
                            enc.generate(impl)
                        except Exception:
                            pass
                else:
                    importlib.import_module("fcp_" + op).Generator().generate(fcp, {"output": os.path.join(tmp, op), "templates": {}, "skels": {}})
                log.append(op)
            except Exception:
                log.append(op + "(failed)")
    finally:
        shutil.rmtree(tmp, ignore_errors=True)
    return log


def check(run, decls, text, feats_sig=None, history_rng=None):
    from fcp import serde

    case = {"schema": text, "description": decls}
    res, lg = PC.parse_string(text)
    if res.is_err():
        run.violation("front end rejected a well-formed schema: %r" % (res.err(),), case)
        return
    fcp = res.unwrap()
    if history_rng is not None:
        case["used_before_reflection"] = use_tree(fcp, history_rng, small=unrolled_leaves(decls) <= 3000 and not huge_options(decls))
        run.count("reflections_after_other_uses")
    try:
        rec = fcp.reflection()
    except Exception as e:
        run.violation("reflection() raised %s: %s" % (type(e).__name__, e), case)
        return
    run.count("reflections")
    exp = RR.expected(decls)
    got = RR.strip_meta(rec)
    if got != exp:
        for key in exp:
            if got.get(key) != exp[key]:
                where = key
                detail = ""
                if isinstance(exp[key], list) and isinstance(got.get(key), list):
                    for i, (a, b) in enumerate(zip(got[key], exp[key])):
                        if a != b:
                            detail = " (entry %d: %r vs declared %r)" % (i, a, b)
                            break
                    if len(got[key]) != len(exp[key]):
                        detail = " (%d entries, declared %d)" % (len(got[key]), len(exp[key]))
                case["reflection_part"] = got.get(key)
                run.violation("reflection record differs from the schema in '%s'%s" % (where, detail[:300]), case)
                return
        run.violation("reflection record has unexpected keys %s" % sorted(set(got) - set(exp)), case)
        return
    run.count("records_faithful")
    # meta: cites the declaration's own line (plain layout: version on line 1, declaration k on line k+2)
    nlines = len(text.split("\n"))
    lines = {}
    si = ei = ii = vi = 0
    for k, d in enumerate(decls):
        line = k + 2
        if d["kind"] == "struct":
            lines["/structs[%d]" % si] = line
            lines["/impls[%d]" % ii] = line
            si += 1
            ii += 1
        elif d["kind"] == "enum":
            lines["/enums[%d]" % ei] = line
            ei += 1
        elif d["kind"] == "impl":
            lines["/impls[%d]" % ii] = line
            ii += 1
        elif d["kind"] == "service":
            lines["/services[%d]" % vi] = line
            vi += 1
    for path, meta in RR.metas(rec):
        if meta is None:
            continue
        top = "/" + path.split("/")[1]
        want = lines.get(top)
        if not isinstance(meta, dict) or want is None:
            continue
        if meta.get("line") != want or not (1 <= meta.get("end_line", 0) <= nlines):
            case["meta"] = meta
            run.violation("meta of %s cites line %r, the declaration is on line %d" % (path, meta.get("line"), want), case)
            return
        run.count("metas_checked")
    real, mine = reflection_schema()
    try:
        raw = serde.encode(real, "Fcp", rec)
        data = bytes(raw)
    except Exception as e:
        run.violation("the reflection record cannot be encoded with the reflection schema: %s: %s" % (type(e).__name__, e), case)
        return
    run.count("records_encoded")
    # the reflection binaries of the schemas seen before are still held by their caller (several schema files
    # encoded in one process before any of them is written out / decoded): they stay what they were
    from . import codec_common as CC
    if not CC.earlier_results_intact(run, raw, data, {"schema": text[:2000], "struct": "Fcp"}):
        return
    rec32, lost = narrowed(rec)
    if lost:
        case["integers_wider_than_the_reflection_fields"] = lost[:6]
    want = ref.encode(mine, "Fcp", rec32)
    if data != want:
        case["bytes"] = data[:200]
        run.violation("reflection bytes differ from the canonical encoding under reflection.fcp (first difference at byte %d)" % next((i for i, (a, b) in enumerate(zip(data, want)) if a != b), min(len(data), len(want))), case)
        return
    try:
        back = serde.decode(real, "Fcp", bytearray(data))
    except Exception as e:
        run.violation("decoding the reflection bytes raised %s: %s" % (type(e).__name__, e), case)
        return
    if not ref.same(back, rec):
        # two mechanisms are known and modelled exactly; anything else is a violation
        model, hit = signed_min_model(rec32)
        if (lost or hit) and ref.same(back, model):
            if lost:
                run.known_finding(K_NARROW, "decode(encode(reflection)) returns %s for %s" % ([v % 2 ** 32 for _, v in lost[:3]], lost[:3]), {"schema": text[:600]})
            if hit:
                run.known_finding(K_SIGNED_MIN, "an enumerator valued -2^31 comes back as +2^31", {"schema": text[:600]})
            run.count("records_round_tripped_up_to_known_findings")
            run.case(sig=feats_sig)
            return
        run.violation("decode(encode(reflection)) differs from the reflection record", case)
        return
    run.count("records_round_tripped")
    run.case(sig=feats_sig)
    if len(run.samples) < 2 and len(text) < 500:
        run.sample({"schema": text, "reflection_without_meta": got, "encoded_bytes": len(data)})


def split_reflection(run, i, decls):
    """The schema split into imported modules (struct in one file, its binding possibly in another):
    the reflection must list the same structs / enums / bindings / services as the declarations."""
    import shutil
    from . import c20

    counter = [0]
    # every other split gives ALL its modules the same file name in different directories
    tree = c20.build_tree(run.rng("modtree", i), decls, "main.fcp", 0, counter, same_names=(i % 8 == 1))
    if not counter[0]:
        return
    if i % 8 == 1 and counter[0] >= 2:
        run.count("split_schemas_with_same_named_modules")
    root = env.scratch("c12mod")
    try:
        files = c20.write_tree(root, tree)
        case = {"files": files, "description": decls}
        try:
            res, lg = PC.parse_file(os.path.join(root, "main.fcp"))
        except BaseException as e:
            run.violation("%s: %s (schema split into modules)" % (type(e).__name__, str(e)[:200]), case)
            return
    finally:
        shutil.rmtree(root, ignore_errors=True)
    if res.is_err():
        run.violation("schema split into modules rejected: %s" % repr(res.err())[:300], case)
        return
    try:
        rec = RR.strip_meta(res.unwrap().reflection())
    except Exception as e:
        run.violation("reflection() of a schema split into modules raised %s: %s" % (type(e).__name__, e), case)
        return
    exp = RR.expected(decls)
    for key in ("structs", "enums", "impls", "services"):
        if c20.multiset(rec.get(key, [])) != c20.multiset(exp[key]):
            case["reflection_part"] = rec.get(key)
            run.violation("reflection of a schema split into modules differs from the declarations in '%s' (%d entries, declared %d)" % (key, len(rec.get(key, [])), len(exp[key])), case)
            return
    run.count("split_schema_reflections")


def cli_encode(run, decls, text, k):
    """The documented path: `fcp encode <reflection schema> <schema> <out>` must write exactly the
    bytes serde.encode produces in-process (observed through the real command line)."""
    import shutil
    import subprocess
    import sys
    from fcp import serde

    tmp = env.scratch("c12cli")
    try:
        src = os.path.join(tmp, "schema.fcp")
        open(src, "w").write(text)
        out = os.path.join(tmp, "out.bin")
        refl = os.path.join(env.REPO, "src", "fcp", "reflection", "reflection.fcp")
        p = subprocess.run([sys.executable, "-m", "fcp", "encode", refl, src, out], cwd=tmp, env=env.child_env(), capture_output=True, text=True, timeout=300)
        case = {"schema": text, "stdout": p.stdout[-500:], "stderr": p.stderr[-800:]}
        if p.returncode != 0 or not os.path.exists(out):
            run.violation("`fcp encode` failed (rc=%s) on a well-formed schema" % p.returncode, case)
            return
        data = open(out, "rb").read()
        res, lg = PC.parse_file(src)
        real, mine = reflection_schema()
        rec = res.unwrap().reflection()
        want = ref.encode(mine, "Fcp", rec)
        if data != want:
            run.violation("`fcp encode` wrote %d bytes that differ from the canonical encoding of the reflection record (%d bytes)" % (len(data), len(want)), case)
            return
        back = serde.decode(real, "Fcp", bytearray(data))
        if RR.strip_meta(back) != RR.expected(decls):
            run.violation("the file written by `fcp encode` does not decode to the schema's reflection", case)
            return
        run.count("cli_encode_runs")
    finally:
        shutil.rmtree(tmp, ignore_errors=True)


WIDE_ENUM = [-1, -2, -255, -(2 ** 31) + 1, -(2 ** 31), 2 ** 31 - 1, 2 ** 31, 2 ** 32 - 1, 2 ** 32, 2 ** 32 + 5, 2 ** 40, 2 ** 63 - 1, -(2 ** 31) - 1, -(2 ** 40)]
WIDE_U32 = [65535, 65536, 65540, 2 ** 31, 2 ** 32 - 1, 2 ** 32, 2 ** 32 + 3, 2 ** 40 + 7]


def wide_integers(run, i):
    """Schemas whose integers sit at and beyond the widths reflection.fcp gives them: enumerator values
    (i32), array sizes, field ids, service and method ids (u32)."""
    r = run.rng("wide", i)
    vals = []
    for v in r.sample(WIDE_ENUM, r.randint(1, 4)) + [0]:
        vals.append(("V%d" % len(vals), v))
    r.shuffle(vals)
    ids = r.sample(WIDE_U32 + [0, 1, 2], 3)
    fields = [
        {"name": "kind", "id": ids[0], "type": ("enum", "Wide")},
        {"name": "block", "id": ids[1], "type": ("arr", ("u", r.choice([1, 8, 13])), r.choice(WIDE_U32))},
        {"name": "tail", "id": ids[2], "type": ("opt", ("arr", ("dyn", ("i", 7)), r.choice(WIDE_U32)))},
    ]
    decls = [{"kind": "enum", "name": "Wide", "values": vals}, {"kind": "struct", "name": "Holder", "fields": fields}]
    if r.random() < 0.6:
        decls.append({"kind": "service", "name": "Svc", "id": r.choice(WIDE_U32), "methods": [
            {"name": "get", "id": r.choice(WIDE_U32), "input": "Holder", "output": "Holder"},
            {"name": "put", "id": r.choice([0, 1, 255]), "input": "Holder", "output": "Holder"}]})
    klass = "beyond" if narrowed(RR.expected(decls))[1] else "within"
    check(run, decls, S.print_schema(decls), "wide-integers|%s|%d" % (klass, len(vals)))
    run.count("wide_integer_schemas_" + klass)
    run.count("wide_integer_schemas")


def run(run):
    import fcp.specs.v2 as V2
    import fcp.specs.impl as IM
    import fcp.specs.struct_field as SF
    import fcp.specs.signal_block as SB

    reach = Reach([V2, IM, SF, SB]).start()
    n = run.pick(450, 10000)
    for i in range(n):
        if not run.mine(i):
            continue
        r = run.rng("descr", i)
        want = ["impl", "struct", "service"] if i % 2 else None
        decls = descr.gen_description(r, ndecl=(2, 8), want=want)
        feats = PC.features(decls)
        for f in feats:
            run.count("feature/" + f)
        check(run, decls, S.print_schema(decls), ",".join(sorted(feats)) + ("|after-use" if i % 3 == 0 else ""), run.rng("history", i) if i % 3 == 0 else None)
        if i < run.pick(4, 40):
            cli_encode(run, decls, S.print_schema(decls), i)
        if i % 4 == 1:
            split_reflection(run, i, decls)
        if i % 5 == 2:
            wide_integers(run, i)
    reach.stop()
    run.extra["reach"] = {k: v for k, v in reach.summary(40).items() if "reflection" in k}


def conclude(run):
    run.require("split_schemas_with_same_named_modules", "wide_integer_schemas", "cli_encode_runs", "split_schema_reflections", "reflections_after_other_uses", "reflections", "records_faithful", "records_encoded", "records_round_tripped", "metas_checked",
                "feature/impl:signal-block", "feature/param:range", "feature/param:unit", "feature/decl:service", "feature/impl:extension-field")
    feats = {k[8:]: v for k, v in run.counters.items() if k.startswith("feature/")}
    for k in [k for k in run.counters if k.startswith("feature/")]:
        del run.counters[k]
    run.extra["grammar_features_exercised"] = feats


def replay(run, case):
    check(run, case["description"], case["schema"])
