"""C13 - a schema loaded at run time from reflection behaves like the compiled one."""

import json
import os
import shutil

from .. import env
from ..gen import schema as S, shapes
from ..ref import codec as ref
from ..native import cpp
from . import cpp_common as PP, codec_common as CC

PROPERTY = "C13"
LEVEL = "exploration"
RULE = (
    "Same schema batches (and therefore the same compiled binaries) as C03.  The reflection binary "
    "is produced by the Python tool exactly like the 'fcp encode' command (serde.encode(reflection "
    "schema, 'Fcp', fcp.reflection())) and loaded with DynamicSchema::LoadBinarySchemaFromFile in the "
    "harness process.  Per struct and value (boundary then random; signed negatives, sub-byte "
    "fields, every container kind): DynamicSchema::EncodeJson (enumerators by name) must give the "
    "same bytes as StaticSchema::EncodeJson (enumerators by number), and DecodeJson of the canonical "
    "bytes must give the same value from both; any difference between the two is a violation whichever side is wrong (cases where both differ from the reference codec in the same way are counted, C03 judges those).  "
    "ASan+UBSan on the loader and the interpretive codec.  Known finding cpp-dynamic-encode-unpacked "
    "is matched by its defect model (bytes == per-leaf byte-aligned concatenation) on structs that "
    "have a leaf that is not a whole number of bytes; everything else must agree exactly.  distinct = "
    "(struct shape signature, coarse value class, direction)."
)
ASSUMPTIONS = [
    "enumerators being named (dynamic) rather than numbered (static) is the only representational difference",
    "values travel as JSON: finite floats, valid UTF-8 strings",
    "enum values used are declared enumerators with unique values",
]
K1 = "cpp-dynamic-encode-unpacked"


def shards(tier):
    return 6 if tier == "quick" else 16


def all_leaves_whole_bytes(sch, t):
    k = t[0]
    if k in ("u", "i"):
        return t[1] % 8 == 0
    if k in ("f32", "f64", "str"):
        return True
    if k == "enum":
        return sch.enum_width(t[1]) % 8 == 0
    if k == "struct":
        return all(all_leaves_whole_bytes(sch, f["type"]) for f in sch.structs[t[1]])
    return all_leaves_whole_bytes(sch, t[1])


def check_batch(run, b, nrand):
    sch = b.sch
    if b.refl is None:
        run.violation("the Python tool cannot produce the reflection binary: %s" % getattr(b, "refl_error", "?"), b.case)
        return
    lines = []
    meta = []
    for name in sch.structs:
        t = ("struct", name)
        for vi, v in enumerate(b.values(run, name, nrand)):
            canon = ref.encode(sch, name, v)
            for op, payload in (("SE", json.dumps(PP.to_json(sch, t, v))), ("DE", json.dumps(PP.to_json(sch, t, v, True))), ("SD", canon.hex()), ("DD", canon.hex())):
                lines.append("%s %s %s" % (op, name, payload))
            meta.append((name, v, canon, vi))
    # a SECOND DynamicSchema object lives in the process and is used first: it comes from another revision of
    # the schema in which the enums of this batch keep their names but have other widths
    other = None
    try:
        enums = [d for d in b.decls if d["kind"] == "enum"][:4]
        if enums:
            dd = [shapes.mk_enum(e["name"], 255 if max(v for _, v in e["values"]) <= 7 else 1) for e in enums]
            dd.append(shapes.mk_struct("DecoyUse", [("n", 0, ("u", 8))] + [("e%d" % k, k + 1, ("enum", e["name"])) for k, e in enumerate(enums)]))
            dd.append(shapes.mk_struct("Decoy", [("v", 0, ("u", 8))]))
            dd.append({"kind": "impl", "protocol": "can", "type": "Decoy", "name": None, "items": [("field", "id", 1), ("field", "bus", ("s", "dk"))]})
            dsch = S.Sch(dd)
            other = os.path.join(b.dir, "other.bin")
            cpp.reflection_binary(CC.parse(S.print_schema(dd)).unwrap(), other)
            v = {"n": 9}
            for k, e in enumerate(enums):
                v["e%d" % k] = max(x for _, x in dsch.enums[e["name"]])
            open(other + ".cmds", "w").write("DecoyUse %s %s\n" % (ref.encode(dsch, "DecoyUse", v).hex(), json.dumps(PP.to_json(dsch, ("struct", "DecoyUse"), v, True))))
            run.count("batches_with_another_schema_revision_used_first")
    except Exception as e:
        run.inconclusive_because("cannot prepare the second schema object: %s: %s" % (type(e).__name__, e))
        other = None
    # every other batch: the reflection binary is loaded twice into the same DynamicSchema object
    reload = b.bi % 2 == 1
    if reload:
        run.count("batches_with_the_reflection_loaded_twice")
    outputs, crashes = cpp.run(b.binary, lines, b.dir, reflection=b.refl, other_reflection=other, reload=reload)
    if PP.report_crashes(run, crashes, lines, b.case, "static/dynamic codec"):
        return
    sigs = {n: shapes.shape_sig(sch, n) for n in sch.structs}
    for k, (name, v, canon, vi) in enumerate(meta):
        se, de, sd, dd = [(o[0] if o else None) for o in outputs[4 * k: 4 * k + 4]]
        case = dict(b.case, struct=name, value=v, canonical=canon, static_encode=se, dynamic_encode=de, static_decode=sd, dynamic_decode=dd)
        if None in (se, de, sd, dd) or "NODYN" in (de, dd):
            run.violation("no answer from the harness / reflection binary not loadable for %s" % name, case)
            return
        clean = all_leaves_whole_bytes(sch, ("struct", name))
        # The property compares the two codecs with EACH OTHER: any difference in behaviour is a violation,
        # whichever side is the wrong one (C03 judges the static side against the reference on its own).
        # ---- encode direction
        s_ok, d_ok = se.startswith("OK "), de.startswith("OK ")
        if s_ok != d_ok:
            run.violation("EncodeJson(%s): the static codec answered %s, the reflection-loaded one %s" % (name, se[:120], de[:120]), case)
            return
        if s_ok:
            sb, db = bytes.fromhex(se[3:]), bytes.fromhex(de[3:])
            run.count("encodes_compared")
            narrow = PP.narrow_id_schema(sch, name)
            if sb != db:
                if narrow is not None and clean and db == ref.encode(narrow, name, v):
                    run.known_finding(PP.K_NARROW, "a field id outside 0..2^32-1 is loaded mod 2^32: dynamic encoder emits %s, static %s" % (db.hex()[:40], sb.hex()[:40]), {"struct": name, "fields": [(f["name"], f["id"]) for f in sch.structs[name]], "value": v})
                elif not clean and db == ref.encode_leaf_aligned(sch, name, v):
                    run.known_finding(K1, "dynamic encoder emits %s, static %s" % (db.hex()[:60], sb.hex()[:60]), {"struct": name, "fields": [(f["name"], S.ptype(f["type"])) for f in sch.structs[name]], "value": v})
                else:
                    run.violation("reflection-loaded codec encodes %s to %s, the static codec to %s" % (name, db.hex()[:80], sb.hex()[:80]), case)
                    return
            else:
                run.count("encodes_equal")
                if sb != canon:
                    run.count("both_codecs_differ_from_the_reference_alike")
                run.case(sig="%s|%s|enc" % (sigs[name], CC.value_sig(v)))
        else:
            run.count("both_codecs_refuse_alike")
        # ---- decode direction
        s_ok, d_ok = sd.startswith("OK "), dd.startswith("OK ")
        if s_ok != d_ok:
            run.violation("DecodeJson(%s): the static codec answered %s, the reflection-loaded one %s" % (name, sd[:120], dd[:120]), case)
            return
        if not s_ok:
            run.count("both_codecs_refuse_alike")
            continue
        sv = dv = None
        s_err = d_err = None
        try:
            sv = PP.from_json(sch, ("struct", name), json.loads(sd[3:]))
        except ValueError as e:
            s_err = str(e)
        try:
            dv = PP.from_json(sch, ("struct", name), json.loads(dd[3:]), True)
        except ValueError as e:
            d_err = str(e)
        run.count("decodes_compared")
        if s_err or d_err:
            if not (s_err and d_err):
                run.violation("decoding the canonical bytes of %s: the %s codec returns JSON the schema does not describe (%s), the other one a proper value" % (name, "static" if s_err else "reflection-loaded", s_err or d_err), case)
                return
            run.count("both_codecs_differ_from_the_reference_alike")
            continue
        if not ref.same(sv, dv):
            narrow = PP.narrow_id_schema(sch, name)
            try:
                modelled = narrow is not None and ref.same(dv, ref.decode(narrow, name, canon))
            except Exception:
                modelled = False
            if modelled:
                run.known_finding(PP.K_NARROW, "a field id outside 0..2^32-1 is loaded mod 2^32: dynamic decoder reads the fields in that order", {"struct": name, "value": v, "decoded": dv})
                continue
            run.violation("reflection-loaded codec decodes the canonical bytes of %s to a different value than the static codec" % name, case)
            return
        if not ref.same(sv, v):
            run.count("both_codecs_differ_from_the_reference_alike")
        run.count("decodes_equal")
        run.case(sig="%s|%s|dec" % (sigs[name], CC.value_sig(v)))
        if len(run.samples) < 3 and vi == 3 and len(json.dumps(PP.to_json(sch, ("struct", name), v))) < 200 and clean:
            run.sample({"struct": name, "fields": [(f["name"], f["id"], S.ptype(f["type"])) for f in sch.structs[name]], "value": v, "static_encode": se, "dynamic_encode": de, "dynamic_decode": dd})


def run(run):
    n, problems, used = ref.self_check(env.REPO)
    if problems:
        run.inconclusive_because("reference codec fails its self-check: %s" % problems[:2])
        return
    root = env.scratch("c13")
    try:
        nb = run.pick(6, 48)
        for bi in range(nb):
            if not run.mine(bi):
                continue
            b = PP.Batch(run, bi, root)
            if b.ok:
                check_batch(run, b, run.pick(16, 36))
            b.cleanup()
    finally:
        shutil.rmtree(root, ignore_errors=True)


def conclude(run):
    run.require("generations", "compiles", "encodes_compared", "encodes_equal", "decodes_compared", "decodes_equal")


def replay(run, case):
    root = env.scratch("c13r")
    try:
        b = PP.Batch(run, case["batch"], root)
        if b.ok:
            check_batch(run, b, 36)
        b.cleanup()
    finally:
        shutil.rmtree(root, ignore_errors=True)
