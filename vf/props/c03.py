"""C03 - the generated C++ static codec compiles and speaks the canonical wire format."""

import json
import os
import shutil

from .. import env
from ..gen import schema as S, shapes
from ..ref import codec as ref
from ..native import cpp
from . import cpp_common as PP, codec_common as CC

PROPERTY = "C03"
LEVEL = "exploration"
RULE = (
    "Schema batches of 15-25 structs (carrier-width boundaries 1/7/8/9/15/16/17/31/32/33/63/64 for u "
    "and i behind a sub-byte field, enums of 1..17 bits, f32/f64/str after sub-byte fields, arrays of "
    "scalars/enums/structs/arrays/strings/optionals, dynamic arrays and optionals of each, nesting to "
    "depth 3, ids out of declaration order, CAN bindings, services in every third batch) are generated "
    "by the real fcp_cpp.Generator and compiled as C++17 with clang++ -fsanitize=address,undefined "
    "together with a fixed generic harness that also includes dynamic.h, the CAN wrappers, rpc.h and "
    "every service header; every fcp_<protocol>.h is additionally compiled on its own.  Per struct, "
    "boundary (zero/min/max/asymmetric) then random values: StaticSchema::EncodeJson must equal the "
    "reference codec's bytes and DecodeJson of the canonical bytes must return the value; the Python "
    "codec's bytes for the same case are compared too.  Any sanitizer report is a violation.  "
    "distinct = (struct shape signature, coarse value class)."
)
ASSUMPTIONS = [
    "values travel as JSON: finite floats only (f32 values exactly representable), valid UTF-8 strings",
    "identifiers avoid C++ reserved words and the names the templates emit",
    "every payload struct plays one role in one service (known finding cpp-rpc-struct-in-two-roles) and fcp_default.h is probed separately (known finding cpp-default-namespace-header)",
    "trusted base: vf/ref/codec.py, vendored nlohmann/json 3.11.2, clang++ 14 sanitizer run-times",
]
K6 = "cpp-default-namespace-header"
K7 = "cpp-rpc-struct-in-two-roles"


def shards(tier):
    return 6 if tier == "quick" else 16


def check_batch(run, b, nrand):
    from fcp import serde

    sch = b.sch
    lines = []
    meta = []
    for name in sch.structs:
        vals = b.values(run, name, nrand)
        t = ("struct", name)
        for vi, v in enumerate(vals):
            canon = ref.encode(sch, name, v)
            lines.append("SE %s %s" % (name, json.dumps(PP.to_json(sch, t, v))))
            meta.append(("SE", name, v, canon, vi))
            lines.append("SD %s %s" % (name, canon.hex()))
            meta.append(("SD", name, v, canon, vi))
    # the rpc wrappers the generator synthesizes for service methods are structs of the generated code too:
    # <X>Input / <Y>Output = { service_id @0: 8-bit ServiceId, method_id @1: 8-bit <Svc>MethodId, payload @2: X }
    wrappers = []
    for d in b.decls:
        if d["kind"] != "service":
            continue
        for m in d["methods"]:
            for role, pname in (("Input", m["input"]), ("Output", m["output"])):
                if pname in sch.structs and 0 <= d["id"] <= 255 and 0 <= m["id"] <= 255:
                    wrappers.append((pname + role, pname, d["id"], m["id"]))
    seen_w = set()
    for wname, pname, sid, mid in wrappers:
        if wname in seen_w:
            continue  # a payload shared by two methods has ONE wrapper carrying the first method's ids
        seen_w.add(wname)
        for v in b.values(run, pname, 2)[:3]:
            canon = bytes([sid, mid]) + ref.encode(sch, pname, v)
            j = {"service_id": sid, "method_id": mid, "payload": PP.to_json(sch, ("struct", pname), v)}
            lines.append("SE %s %s" % (wname, json.dumps(j)))
            meta.append(("WE", wname, v, canon, (pname, sid, mid)))
            lines.append("SD %s %s" % (wname, canon.hex()))
            meta.append(("WD", wname, v, canon, (pname, sid, mid)))
    outputs, crashes = cpp.run(b.binary, lines, b.dir)
    if PP.report_crashes(run, crashes, lines, b.case, "static codec"):
        return
    sigs = {n: shapes.shape_sig(sch, n) for n in sch.structs}
    pybytes = {}
    for (op, name, v, canon, vi), out, line in zip(meta, outputs, lines):
        case = dict(b.case, struct=name, value=v, canonical=canon, command=line[:3000], output=out)
        if not out or len(out) != 1:
            run.violation("no answer from the C++ harness for %s %s" % (op, name), case)
            return
        o = out[0]
        if op in ("WE", "WD"):
            pname, sid, mid = vi
            if not o.startswith("OK "):
                run.violation("rpc wrapper %s: the static codec answered %s" % (name, o[:200]), case)
                return
            if op == "WE":
                if bytes.fromhex(o[3:]) != canon:
                    run.violation("rpc wrapper %s encodes to %s; service id, method id (one byte each) and the canonical payload are %s" % (name, o[3:83], canon.hex()[:80]), case)
                    return
                run.count("rpc_wrappers_encoded")
            else:
                try:
                    jj = json.loads(o[3:])
                    ok = jj.get("service_id") == sid and jj.get("method_id") == mid and ref.same(PP.from_json(sch, ("struct", pname), jj.get("payload")), v)
                except (ValueError, AttributeError):
                    ok = False
                if not ok:
                    run.violation("rpc wrapper %s decodes its canonical bytes to %s" % (name, o[3:200]), case)
                    return
                run.count("rpc_wrappers_decoded")
            continue
        if op == "SE":
            if not o.startswith("OK "):
                run.violation("StaticSchema::EncodeJson(%s) answered %s" % (name, o[:200]), case)
                return
            got = bytes.fromhex(o[3:])
            if got != canon:
                case["cpp_bytes"] = got
                run.violation("generated C++ encodes %s to %s, the canonical bytes are %s" % (name, got.hex()[:80], canon.hex()[:80]), case)
                return
            run.count("encodes_compared")
            try:
                pb = bytes(serde.encode(b.fcp, name, v))
            except Exception as e:
                pb = None
            if pb is not None:
                run.count("python_codec_compared")
                if pb != got:
                    case["python_bytes"] = pb
                    run.violation("generated C++ and the Python codec produce different bytes for %s" % name, case)
                    return
        else:
            if not o.startswith("OK "):
                run.violation("StaticSchema::DecodeJson(%s) answered %s" % (name, o[:200]), case)
                return
            try:
                back = PP.from_json(sch, ("struct", name), json.loads(o[3:]))
            except ValueError as e:
                run.violation("generated C++ decodes %s to malformed JSON: %s" % (name, e), case)
                return
            if not ref.same(back, v):
                case["decoded"] = back
                run.violation("generated C++ decodes the canonical bytes of %s to a different value" % name, case)
                return
            run.count("decodes_compared")
            run.case(sig="%s|%s" % (sigs[name], CC.value_sig(v)))
            if len(run.samples) < 3 and vi == 3 and len(line) < 300:
                run.sample({"struct": name, "fields": [(f["name"], f["id"], S.ptype(f["type"])) for f in sch.structs[name]], "value": v, "canonical_bytes": canon, "cpp_decoded": o[3:]})


def compile_protocol_headers(run, b):
    for n in sorted(b.files):
        if n.startswith("fcp_") and n.endswith(".h") and n != "fcp_default.h":
            ok, log = cpp.syntax_only(b.dir, n)
            run.count("protocol_headers_compiled")
            if not ok:
                run.violation("generated header %s does not compile as C++17: %s" % (n, [l for l in log.split("\n") if "error" in l][:1]), dict(b.case, header=n, compiler_output=log[-3000:]))
                return False
    return True


def probe_k6(run, b):
    if "fcp_default.h" not in b.files:
        return
    ok, log = cpp.syntax_only(b.dir, "fcp_default.h")
    run.count("k6_probe")
    if not ok:
        if "namespace" in log or "default" in log:
            run.known_finding(K6, "fcp_default.h does not compile: %s" % ([l for l in log.split("\n") if "error" in l][:1]), {"header": "fcp_default.h"})
        else:
            run.violation("fcp_default.h fails to compile for another reason than the recorded finding: %s" % log[:400], dict(b.case, header="fcp_default.h"))


def probe_k7(run, root):
    """A struct that is input of one method and output of another loses one of its rpc wrappers."""
    from .. import core

    decls = [
        {"kind": "struct", "name": "Ping", "fields": [{"name": "seq", "id": 0, "type": ("u", 8)}]},
        {"kind": "struct", "name": "Pong", "fields": [{"name": "seq", "id": 0, "type": ("u", 8)}]},
        {"kind": "service", "name": "Echo", "id": 1, "methods": [
            {"name": "Fwd", "id": 0, "input": "Ping", "output": "Pong"},
            {"name": "Back", "id": 1, "input": "Pong", "output": "Ping"},
        ]},
    ]
    probe = core.Run(run.pid, run.tier, run.seed)
    b = PP.Batch(probe, 9000, root, decls=decls, can_bindings=[])
    run.count("k7_probe")
    if b.ok:
        b.cleanup()
        return
    what = probe.violations[0]["what"] if probe.violations else ""
    b.cleanup()
    if "does not compile" in what and ("Input" in what or "Output" in what or "Ping" in what or "Pong" in what):
        run.known_finding(K7, what[:200], {"schema": S.print_schema(decls)})
    else:
        run.violation("K7 probe fails differently from the recorded finding: %s" % what[:300], {"schema": S.print_schema(decls)})


def run(run):
    n, problems, used = ref.self_check(env.REPO)
    if problems:
        run.inconclusive_because("reference codec fails its self-check: %s" % problems[:2])
        return
    root = env.scratch("c03")
    try:
        nb = run.pick(6, 48)
        for bi in range(nb):
            if not run.mine(bi):
                continue
            b = PP.Batch(run, bi, root)
            if b.ok:
                if compile_protocol_headers(run, b):
                    check_batch(run, b, run.pick(20, 40))
                if not run.quick and bi % 8 == 0:
                    # thorough tier: the project's own compiler family as a second opinion on 'compiles as C++17'
                    for hdr in ("fcp.h", "dynamic.h", "can_static_schema.h"):
                        ok, log = cpp.syntax_only(b.dir, hdr, compiler="g++", timeout=900)
                        run.count("gxx_syntax_checks")
                        if not ok:
                            run.violation("generated %s does not compile with g++ -std=c++17: %s" % (hdr, [l for l in log.split("\n") if "error" in l][:1]), dict(b.case, header=hdr, compiler_output=log[-3000:]))
                            break
                if bi == 0:
                    probe_k6(run, b)
            b.cleanup()
        if run.shard == 0:
            probe_k7(run, root)
    finally:
        shutil.rmtree(root, ignore_errors=True)


def conclude(run):
    run.require("generations", "compiles", "encodes_compared", "decodes_compared", "python_codec_compared", "protocol_headers_compiled")


def replay(run, case):
    root = env.scratch("c03r")
    try:
        if "batch" in case and isinstance(case["batch"], int) and case["batch"] < 9000:
            b = PP.Batch(run, case["batch"], root)
            if b.ok and compile_protocol_headers(run, b):
                check_batch(run, b, 20)
            b.cleanup()
        else:
            probe_k7(run, root)
    finally:
        shutil.rmtree(root, ignore_errors=True)
