"""C09 - verifier verdict equals the well-formedness specification (both ways)."""

import copy
import itertools

from .. import env
from ..gen import schema as S, descr
from ..ref import wellformed as WF
from ..mon.reach import Reach

PROPERTY = "C09"
LEVEL = "exploration"
RULE = (
    "Trees are built directly with the fcp node classes (so shapes the grammar cannot produce - a "
    "struct without fields - are reachable) from plain tree descriptions.  (a) Bounded-exhaustive "
    "small scope, the union of four sub-scopes each enumerated completely: types (<= 2 structs x <= 2 "
    "fields named a/b, <= 1 enum, type names A/B), enums (<= 2 enums x <= 2 enumerators, names x/y, "
    "values 0/1), bindings (structs A,B + <= 2 extra bindings: name A/B, protocol can/x, id absent/0/1, "
    "type A/B/undeclared Z), devices (<= 2 devices listing <= 2 of S/T, <= 2 declared services); the "
    "thorough tier widens every bound by one.  (b) Random larger trees (from the description "
    "generator) with none or exactly one injected violation of each rule at a random position, plus "
    "plug-in clauses: unknown-struct bindings, equal CAN ids (same bus / different buses / CAN + non-"
    "CAN), CAN message sizes 57..72 bits with the excess in a scalar, array, array of structs, enum or nested struct; every third random tree also with one declaration listed twice as the SAME node object.  "
    "(c) 3-6 random permutations of the declaration lists of every tree.  Each tree is verified "
    "with a fresh verifier (and, for the random and plug-in trees, also with one long-lived verifier per "
    "check set that has verified all earlier trees) with the general check set and, where relevant, with the DBC and C plug-in checks registered.  "
    "Oracle: vf/ref/wellformed.py (the specification written twice; disagreement between the two "
    "formulations aborts).  Dispatch probe: on well-formed trees a recording check registered in "
    "each category must see every node of that category exactly once.  distinct = (check set, "
    "expected verdict, violated rules, size class)."
)
ASSUMPTIONS = [
    "device 'services' is a list (the documented form)",
    "for the C clause a 'message' is a CAN binding; trees where only a non-CAN struct exceeds 64 bits, "
    "CAN bindings without an id, and variable-size CAN messages are not used to judge (C14 covers them)",
    "the small scope is exhaustive within its stated bounds only",
]


def shards(tier):
    return 8 if tier == "quick" else 16


# ------------------------------------------------------------ tree building
def mk_type(t):
    from fcp.specs import type as T

    k = t[0]
    if k == "u":
        return T.UnsignedType("u%d" % t[1])
    if k == "i":
        return T.SignedType("i%d" % t[1])
    if k == "f32":
        return T.FloatType()
    if k == "f64":
        return T.DoubleType()
    if k == "str":
        return T.StringType()
    if k == "enum":
        return T.EnumType(t[1])
    if k == "struct":
        return T.StructType(t[1])
    if k == "arr":
        return T.ArrayType(mk_type(t[1]), t[2])
    if k == "dyn":
        return T.DynamicArrayType(mk_type(t[1]))
    if k == "opt":
        return T.OptionalType(mk_type(t[1]))
    raise ValueError(t)


def build(t):
    from fcp.specs.v2 import FcpV2
    from fcp.specs.struct import Struct
    from fcp.specs.struct_field import StructField
    from fcp.specs.enum import Enum, Enumeration
    from fcp.specs.impl import Impl
    from fcp.specs.signal_block import SignalBlock
    from fcp.specs.service import Service
    from fcp.specs.method import Method
    from fcp.specs.device import Device
    from fcp.specs.metadata import MetaData

    meta = MetaData(1, 1, 1, 1, 0, 0, "main.fcp")
    # 'share_equal': declarations with identical descriptions are ONE node object listed twice (what
    # merging the same parsed module twice, or a caller assembling a tree by hand, produces)
    share = {} if t.get("share_equal") else None

    def shared(kind, d, make):
        if share is None:
            return make(d)
        key = kind + repr(d)
        if key not in share:
            share[key] = make(d)
        return share[key]

    return FcpV2(
        structs=[
            shared("s", s, lambda s: Struct(name=s["name"], fields=[StructField(f["name"], f["id"], mk_type(f["type"])) for f in s["fields"]], meta=meta))
            for s in t["structs"]
        ],
        enums=[shared("e", e, lambda e: Enum(e["name"], [Enumeration(n, v, meta) for n, v in e["values"]], meta)) for e in t["enums"]],
        impls=[
            shared("i", i, lambda i: Impl(i["name"], i["protocol"], i["type"], dict(i["fields"]), [SignalBlock(s["name"], dict(s["fields"]), meta) for s in i.get("signals", [])], meta))
            for i in t["impls"]
        ],
        services=[
            shared("v", s, lambda s: Service(s["name"], s["id"], [Method(m["name"], m["id"], m["input"], m["output"], meta) for m in s["methods"]], meta))
            for s in t["services"]
        ],
        devices=[shared("d", d, lambda d: Device(d["name"], dict(d["fields"]), meta)) for d in t["devices"]],
    )


def tree_of(decls):
    """Tree description of a (well-formed) declaration list, with one default binding per struct."""
    t = {"structs": [], "enums": [], "impls": [], "services": [], "devices": []}
    for d in decls:
        k = d["kind"]
        if k == "struct":
            t["structs"].append({"name": d["name"], "fields": [{"name": f["name"], "id": f["id"], "type": f["type"]} for f in d["fields"]]})
            t["impls"].append({"name": d["name"], "protocol": "default", "type": d["name"], "fields": {}, "signals": []})
        elif k == "enum":
            t["enums"].append({"name": d["name"], "values": list(d["values"])})
        elif k == "impl":
            t["impls"].append({
                "name": S.impl_name(d), "protocol": d["protocol"], "type": d["type"],
                "fields": {k2: S.dval(v) for k2, v in S.impl_fields(d).items()},
                "signals": [{"name": n, "fields": {k2: S.dval(v) for k2, v in fl}} for n, fl in S.impl_signals(d)],
            })
        elif k == "service":
            t["services"].append({"name": d["name"], "id": d["id"], "methods": [dict(m) for m in d["methods"]]})
        elif k == "device":
            t["devices"].append({"name": d["name"], "fields": {k2: S.dval(v) for k2, v in d["fields"]}})
    return t


def width_fn(t):
    decls = [{"kind": "struct", "name": s["name"], "fields": s["fields"]} for s in t["structs"]] + [
        {"kind": "enum", "name": e["name"], "values": e["values"]} for e in t["enums"]
    ]
    sch = S.Sch(decls)
    return lambda name: sch.width(("struct", name))


def make_verifier(checkset):
    from fcp.verifier import make_general_verifier

    v = make_general_verifier()
    if checkset == "dbc":
        import fcp_dbc

        fcp_dbc.Generator().register_checks(v)
    elif checkset == "can_c":
        import fcp_can_c

        fcp_can_c.Generator().register_checks(v)
    return v


def real_verdict(run, t, checkset, case):
    """True (Ok) / False (Err) / None (violation already reported)."""
    try:
        fcp = build(t)
    except Exception as e:
        run.inconclusive_because("could not build a tree: %s: %s" % (type(e).__name__, str(e)[:200]))
        return None
    try:
        r = make_verifier(checkset).verify(fcp)
    except Exception as e:
        run.violation("verify() raised %s: %s (check set %s)" % (type(e).__name__, str(e)[:200], checkset), case)
        return None
    run.count("verify_calls")
    if hasattr(r, "is_ok") and callable(r.is_ok) and type(r).__name__ in ("Ok", "Err"):
        return r.is_ok()
    run.violation("verify() returned %r which is neither Ok nor Err (check set %s)" % (r, checkset), case)
    return None


class ReusedVerifiers:
    """One long-lived verifier object per check set, reused for many trees in a row: each verdict must
    equal the verdict of a fresh verifier (a verifier keeps no memory of earlier schemas)."""

    def __init__(self):
        self.v = {}

    def verdict(self, run, t, checkset, fresh, case):
        if checkset not in self.v:
            self.v[checkset] = make_verifier(checkset)
        try:
            r = self.v[checkset].verify(build(t))
        except Exception as e:
            run.violation("verify() on a reused verifier raised %s: %s" % (type(e).__name__, str(e)[:200]), case)
            self.v.pop(checkset, None)
            return
        got = r.is_ok() if hasattr(r, "is_ok") and type(r).__name__ in ("Ok", "Err") else None
        run.count("reused_verifier_verdicts")
        if got != fresh:
            run.violation("a verifier that has verified other schemas before says %s, a fresh verifier says %s (check set %s)" % (r, "Ok" if fresh else "Err", checkset), case)
            self.v.pop(checkset, None)


REUSED = ReusedVerifiers()


def late_registration(run, t, checkset, fresh, case):
    """One verifier object that has ALREADY verified a schema when the plug-in registers its checks on it (a long-lived
    manager asked for another generator): checks registered late are registered checks, the verdict is the fresh one."""
    from fcp.verifier import make_general_verifier

    try:
        v = make_general_verifier()
        v.verify(build({"structs": [{"name": "Warm", "fields": [{"name": "x", "id": 0, "type": ("u", 8)}]}], "enums": [],
                        "impls": [{"name": "Warm", "protocol": "default", "type": "Warm", "fields": {}, "signals": []}], "services": [], "devices": []}))
        if checkset == "dbc":
            import fcp_dbc

            fcp_dbc.Generator().register_checks(v)
        else:
            import fcp_can_c

            fcp_can_c.Generator().register_checks(v)
        r = v.verify(build(t))
        got = r.is_ok() if type(r).__name__ in ("Ok", "Err") else None
    except Exception as e:
        got = "raised %s" % type(e).__name__
    run.count("late_registration_verdicts")
    if got != fresh:
        run.violation("a verifier that verified a schema BEFORE the %s checks were registered on it says %s, a fresh one %s" % (checkset, got, "Ok" if fresh else "Err"), case)


def edited_in_place(run, r, t, checkset):
    """One long-lived tree object: verified (and looked up by name) once, then edited in place WITHOUT changing the
    number of its declarations - a struct renamed, a field widened, the struct list replaced by an equal-length
    one - and verified again by a brand-new verifier.  The verdict on the edited object must be the verdict of an
    identical, freshly built tree (nothing about the tree's earlier contents may be remembered)."""
    if not t["structs"]:
        return
    try:
        fcp = build(t)
        make_verifier(checkset).verify(fcp)
        for s in t["structs"]:
            fcp.get_struct(s["name"])
        for e in t["enums"]:
            fcp.get_enum(e["name"])
    except Exception:
        return
    t2 = copy.deepcopy(t)

    def leaf(ty):
        while ty[0] in ("arr", "dyn", "opt"):
            ty = ty[1]
        return ty

    # names that field types refer to keep their names: a dangling field type is the front end's business (C08),
    # not a tree the verifier's specification speaks about
    used = {leaf(f["type"])[1] for s in t["structs"] for f in s["fields"] if leaf(f["type"])[0] in ("struct", "enum")}
    free = [j for j, s in enumerate(t2["structs"]) if s["name"] not in used]
    if not free:
        return
    k = r.choice(free)
    edit = r.choice(["rename-struct", "rename-struct-to-bound-name", "widen-field", "replace-struct-list", "rename-enum"])
    try:
        if edit == "rename-struct":
            new = "Zz" + t2["structs"][k]["name"]
            t2["structs"][k]["name"] = new
            fcp.structs[k].name = new
        elif edit == "rename-struct-to-bound-name":
            # the struct a binding was missing appears under the name the binding asks for
            wanted = [i["type"] for i in t2["impls"] if i["type"] not in [s["name"] for s in t2["structs"]] + [e["name"] for e in t2["enums"]]]
            if not wanted:
                return
            t2["structs"][k]["name"] = wanted[0]
            fcp.structs[k].name = wanted[0]
        elif edit == "widen-field":
            j = r.randrange(len(t2["structs"][k]["fields"]))
            t2["structs"][k]["fields"][j]["type"] = ("u", r.choice([1, 40, 64]))
            fcp.structs[k].fields[j].type = mk_type(t2["structs"][k]["fields"][j]["type"])
        elif edit == "replace-struct-list":
            new = "Yy" + t2["structs"][k]["name"]
            t2["structs"][k]["name"] = new
            fcp.structs = build(t2).structs
        else:
            if not t2["enums"] or t2["enums"][0]["name"] in used:
                return
            t2["enums"][0]["name"] = "Zz" + t2["enums"][0]["name"]
            fcp.enums[0].name = t2["enums"][0]["name"]
    except Exception:
        return  # the node classes do not allow this edit: nothing to judge
    case = {"tree_before": t, "edit": edit, "tree_after": t2, "checkset": checkset}
    fresh = real_verdict(run, t2, checkset, case)
    if fresh is None:
        return
    try:
        res = make_verifier(checkset).verify(fcp)
        got = res.is_ok() if type(res).__name__ in ("Ok", "Err") else None
    except Exception as e:
        got = "raised %s" % type(e).__name__
    run.count("edited_in_place_verdicts")
    run.count("edited_in_place/" + edit)
    if got != fresh:
        run.violation("a tree object edited in place (%s) is judged %s, an identical freshly built tree %s (check set %s)" % (edit, got, "Ok" if fresh else "Err", checkset), case)
        return
    run.case(sig="edited|%s|%s|%s" % (edit, checkset, "ok" if fresh else "err"))


def aliased(r, t):
    """A copy of tree description t in which one declaration is listed twice; build() makes the two
    entries the same node object.  None when t has nothing to duplicate."""
    kinds = [k for k in ("structs", "enums", "impls", "devices", "services") if t[k]]
    if not kinds:
        return None
    p = copy.deepcopy(t)
    k = r.choice(kinds)
    i = r.randrange(len(p[k]))
    p[k].insert(r.randint(0, len(p[k])), copy.deepcopy(p[k][i]))
    p["share_equal"] = True
    return p, k


def permuted(r, t):
    p = copy.deepcopy(t)
    for k in ("structs", "enums", "impls", "services", "devices"):
        r.shuffle(p[k])
    return p


def judge(run, t, checkset, origin, nperm=0, rng=None, sample=False):
    case = {"tree": t, "checkset": checkset, "origin": origin}
    try:
        want, reasons = WF.verdict(t, checkset, width_fn(t) if checkset == "can_c" else None)
    except AssertionError as e:
        run.inconclusive_because(str(e)[:300])
        return
    got = real_verdict(run, t, checkset, case)
    if got is None:
        return
    rules = sorted({r for r, _ in reasons})
    if got != want:
        case["specification_says"] = "well-formed" if want else "ill-formed: %s" % reasons
        run.violation(
            "verify() is %s but the specification says %s (check set %s)" % ("Ok" if got else "Err", "well-formed" if want else "ill-formed %s" % rules, checkset),
            case,
        )
        return
    run.count("verdicts_agree")
    run.count("expected_ok" if want else "expected_err")
    if origin.startswith(("random", "plugin")):
        REUSED.verdict(run, t, checkset, got, case)
    if origin.startswith("plugin") and checkset in ("dbc", "can_c"):
        late_registration(run, t, checkset, got, case)
    size = sum(len(v) for v in t.values() if isinstance(v, list))
    run.case(sig="%s|%s|%s|%s|n%d" % (origin.split("/")[0], checkset, "ok" if want else "err", ",".join(rules), min(size, 12)))
    if sample and len(run.samples) < 4:
        run.sample({"tree": t, "checkset": checkset, "specification": "well-formed" if want else reasons, "verify": "Ok" if got else "Err"})
    for j in range(nperm):
        p = permuted(rng, t)
        gp = real_verdict(run, p, checkset, {"tree": p, "checkset": checkset, "origin": origin + "/permuted"})
        if gp is None:
            return
        if gp != got:
            run.violation("verdict changes under a permutation of the declarations (%s -> %s, check set %s)" % (got, gp, checkset), {"tree": t, "permuted": p, "checkset": checkset})
            return
        run.count("permutations_agree")
    if want and checkset == "general" and not t.get("share_equal"):
        dispatch_probe(run, t, case)


CATEGORY_COUNT = {
    "struct": lambda t: len(t["structs"]),
    "field": lambda t: sum(len(s["fields"]) for s in t["structs"]),
    "enum": lambda t: len(t["enums"]),
    "impl": lambda t: len(t["impls"]),
    "signal_block": lambda t: sum(len(i.get("signals", [])) for i in t["impls"]),
    "type": lambda t: len(t["structs"]) + len(t["enums"]),
    "device": lambda t: len(t["devices"]),
}


def dispatch_probe(run, t, case):
    from fcp.verifier import make_general_verifier
    from fcp.result import Ok

    v = make_general_verifier()
    seen = {c: 0 for c in CATEGORY_COUNT}

    def probe(cat):
        def check(self, fcp, node):
            seen[cat] += 1
            return Ok(())

        return check

    try:
        for c in CATEGORY_COUNT:
            v.register(probe(c), c)
        r = v.verify(build(t))
    except Exception as e:
        run.violation("verify() with recording checks raised %s: %s" % (type(e).__name__, e), case)
        return
    if not (hasattr(r, "is_ok") and r.is_ok()):
        run.violation("well-formed tree rejected once recording checks are registered: %r" % (r,), case)
        return
    for c, fn in CATEGORY_COUNT.items():
        if seen[c] != fn(t):
            run.violation("category '%s': recording check saw %d nodes, the tree has %d" % (c, seen[c], fn(t)), case)
            return
    run.count("dispatch_probes")


# ------------------------------------------------------------- small scopes
U8 = ("u", 8)


def scope_types(wide):
    names = ["A", "B"] + (["C"] if wide else [])
    fnames = ["a", "b"] + (["c"] if wide else [])
    maxs = 3 if wide else 2
    field_sets = [[]]
    for n in range(1, (3 if wide else 2) + 1):
        for combo in itertools.product(fnames, repeat=n):
            field_sets.append(list(combo))
    struct_opts = [(n, fs) for n in names for fs in field_sets]
    # (wide: up to two structs of up to three fields, and three structs of up to two fields - about 10^6 trees; three
    # structs of three fields each would be 2*10^7 and add no new coupling between the rules)
    small_opts = [(n, fs) for n, fs in struct_opts if len(fs) <= 2]
    for ns in range(0, maxs + 1):
        for structs in itertools.product(small_opts if ns >= 3 else struct_opts, repeat=ns):
            for enums in [[]] + [[n] for n in names] + ([[a, b] for a in names for b in names] if wide else []):
                t = {"structs": [], "enums": [], "impls": [], "services": [], "devices": []}
                for sn, fs in structs:
                    t["structs"].append({"name": sn, "fields": [{"name": f, "id": i, "type": U8} for i, f in enumerate(fs)]})
                    t["impls"].append({"name": sn, "protocol": "default", "type": sn, "fields": {}, "signals": []})
                for en in enums:
                    t["enums"].append({"name": en, "values": [("k", 0)]})
                yield t


def scope_enums(wide):
    enumerators = [(n, v) for n in ("x", "y") for v in (0, 1)]
    per_enum = []
    for k in range(1, (3 if wide else 2) + 1):
        for combo in itertools.product(enumerators, repeat=k):
            per_enum.append(list(combo))
    opts = [(n, vals) for n in ("E", "F") for vals in per_enum]
    for ne in range(0, 3):
        if wide and ne == 2:
            # 2 enums x <=3 enumerators: product is 4e4 trees, still enumerated completely
            pass
        for enums in itertools.product(opts, repeat=ne):
            yield {"structs": [], "enums": [{"name": n, "values": v} for n, v in enums], "impls": [], "services": [], "devices": []}


def scope_bindings(wide):
    base_structs = [{"name": n, "fields": [{"name": "f", "id": 0, "type": U8}]} for n in ("A", "B")]
    base_impls = [{"name": n, "protocol": "default", "type": n, "fields": {}, "signals": []} for n in ("A", "B")]
    opts = []
    for name in ("A", "B"):
        for proto in ("can", "x"):
            for idv in (None, 0, 1):
                for typ in ("A", "B", "Z"):
                    opts.append((name, proto, idv, typ))
    for nb in range(0, (3 if wide else 2) + 1):
        for bs in itertools.product(opts, repeat=nb):
            t = {"structs": copy.deepcopy(base_structs), "enums": [], "impls": copy.deepcopy(base_impls), "services": [], "devices": []}
            for name, proto, idv, typ in bs:
                t["impls"].append({"name": name, "protocol": proto, "type": typ, "fields": ({} if idv is None else {"id": idv}), "signals": []})
            yield t


def scope_devices(wide):
    lists = [None, [], ["S"], ["T"], ["S", "T"], ["T", "T"]] + ([["S", "U"], ["U"]] if wide else [])
    declared_opts = [[], ["S"], ["T"], ["S", "T"], ["S", "S"]] + ([["S", "T", "U"]] if wide else [])
    for nd in range(0, (3 if wide else 2) + 1):
        for devs in itertools.product(lists, repeat=nd):
            for declared in declared_opts:
                t = {"structs": [], "enums": [], "impls": [], "services": [], "devices": []}
                for s in declared:
                    t["services"].append({"name": s, "id": 0, "methods": []})
                for i, l in enumerate(devs):
                    t["devices"].append({"name": "d%d" % i, "fields": ({} if l is None else {"services": list(l)})})
                yield t


def can_ambiguous(t, checkset):
    """Trees this check does not judge (see ASSUMPTIONS)."""
    if checkset == "dbc":
        return any(i["protocol"] == "can" and i["fields"].get("id") is None for i in t["impls"])
    return False


# -------------------------------------------------------------- random part
RULES = ["none", "dup-type-ss", "dup-type-se", "dup-type-ee", "dup-impl", "dup-field", "empty-struct",
         "dup-enumerator-name", "dup-enumerator-value", "unknown-service"]


def inject(r, t, rule):
    t = copy.deepcopy(t)
    if rule == "none":
        return t
    if rule == "dup-type-ss" and len(t["structs"]) >= 1:
        s = copy.deepcopy(r.choice(t["structs"]))
        t["structs"].insert(r.randint(0, len(t["structs"])), s)
        return t
    if rule == "dup-type-se" and t["structs"]:
        t["enums"].insert(r.randint(0, len(t["enums"])), {"name": r.choice(t["structs"])["name"], "values": [("only", 0)]})
        return t
    if rule == "dup-type-ee" and t["enums"]:
        t["enums"].insert(r.randint(0, len(t["enums"])), copy.deepcopy(r.choice(t["enums"])))
        return t
    if rule == "dup-impl" and t["impls"]:
        i = copy.deepcopy(r.choice(t["impls"]))
        i["fields"] = {"other": 1}
        t["impls"].insert(r.randint(0, len(t["impls"])), i)
        return t
    if rule == "dup-field" and t["structs"]:
        s = r.choice(t["structs"])
        f = copy.deepcopy(r.choice(s["fields"]))
        f["id"] = 99
        s["fields"].insert(r.randint(0, len(s["fields"])), f)
        return t
    if rule == "empty-struct" and t["structs"]:
        # only a struct nobody embeds may lose its fields without creating other violations
        s = r.choice(t["structs"])
        s["fields"] = []
        return t
    if rule == "dup-enumerator-name" and t["enums"]:
        e = r.choice(t["enums"])
        n, v = r.choice(e["values"])
        e["values"].insert(r.randint(0, len(e["values"])), (n, max(x for _, x in e["values"]) + 1))
        return t
    if rule == "dup-enumerator-value" and t["enums"]:
        e = r.choice(t["enums"])
        n, v = r.choice(e["values"])
        e["values"].insert(r.randint(0, len(e["values"])), (n + "_dup", v))
        return t
    if rule == "unknown-service":
        if not t["devices"]:
            t["devices"].append({"name": "dev_new", "fields": {}})
        d = r.choice(t["devices"])
        lst = list(d["fields"].get("services") or [])
        missing = "NoSuchService"
        declared = [sv["name"] for sv in t["services"]]
        if declared and r.random() < 0.5:
            # an undeclared name that is a proper part of a declared one (Tele / Telemetry), or contains one
            base = r.choice(declared)
            cands = [c for c in (base[:-1], base[1:], base[: max(1, len(base) // 2)], base + "X", "") if c and c not in declared]
            if cands:
                missing = r.choice(cands)
        lst.insert(r.randint(0, len(lst)), missing)
        d["fields"]["services"] = lst
        return t
    return None


def plugin_trees(r):
    """(tree, tag) for the plug-in clauses."""
    out = []
    structs = [{"name": "Pa", "fields": [{"name": "x", "id": 0, "type": ("u", 8)}]}, {"name": "Pb", "fields": [{"name": "y", "id": 0, "type": ("i", 16)}]}]
    defaults = [{"name": s["name"], "protocol": "default", "type": s["name"], "fields": {}, "signals": []} for s in structs]

    def T(impls, extra_structs=(), enums=()):
        ss = copy.deepcopy(structs) + list(extra_structs)
        return {"structs": ss, "enums": list(enums), "impls": copy.deepcopy(defaults) + [{"name": s["name"], "protocol": "default", "type": s["name"], "fields": {}, "signals": []} for s in extra_structs] + impls,
                "services": [], "devices": []}

    def can(name, typ, idv, bus=None, proto="can"):
        f = {"id": idv}
        if bus:
            f["bus"] = bus
        return {"name": name, "protocol": proto, "type": typ, "fields": f, "signals": []}

    a, b = r.sample(range(0, 2048), 2)
    if r.random() < 0.3:
        a = r.choice([0, 2047])  # boundary frame ids (0 is falsy)
        b = a + 1 if a == 0 else a - 1
    out.append((T([can("Pa", "Pa", a), can("Pb", "Pb", b)]), "can-distinct-ids"))
    out.append((T([can("Pa", "Pa", a), can("Pb", "Pb", a)]), "can-same-id-same-bus"))
    # (name, protocol) pairs that differ although their spellings joined by '_' (or by nothing) coincide
    out.append((T([can("fd_Pa", "Pa", a, proto="can"), can("Pa", "Pa", b, proto="can_fd")]), "bindings-whose-joined-spellings-coincide"))
    out.append((T([can("b_c", "Pa", a, proto="a"), can("c", "Pb", b, proto="a_b"), can("bc", "Pb", b, proto="a"), can("c", "Pa", b, proto="ab")]), "bindings-whose-joined-spellings-coincide"))
    # identifiers that agree in their low 11 / 29 bits (or differ only in the 'extended frame' flag bit 31) are
    # different identifiers
    far = a + r.choice([1 << 11, 1 << 29, 1 << 31, 0x20000000, 0x80000000, 1 << 32])
    out.append((T([can("Pa", "Pa", a), can("Pb", "Pb", far)]), "can-ids-equal-in-their-low-bits"))
    out.append((T([can("Pa", "Pa", far), can("Pb", "Pb", far)]), "can-same-wide-id"))
    out.append((T([can("Pa", "Pa", a, "b1"), can("Pb", "Pb", a, "b2")]), "can-same-id-different-buses"))
    out.append((T([can("Pa", "Pa", a), can("Pb", "Pb", a, proto="uart")]), "can-and-noncan-same-id"))
    out.append((T([can("Pa", "Pa", a), can("Pb", "Pb", a, proto="uart"), can("Px", "Pb", a, proto="spi")]), "noncan-same-ids"))
    out.append((T([can("Pa", "Nowhere", a)]), "can-unknown-struct"))
    out.append((T([can("Pq", "Nowhere", a, proto="uart")]), "noncan-unknown-struct"))
    out.append((T([can("Pa", "Pa", a), can("Pa2", "Pa", b), can("Pb", "Pb", a)]), "three-can-two-equal"))
    # a binding whose type names a declared ENUM (no struct of that name): still "an unknown struct"
    ev = {"name": "Pk", "values": [("off", 0), ("on", 1)]}
    out.append((T([can("Pk", "Pk", a)], enums=[ev]), "can-binding-to-an-enum-name"))
    out.append((T([can("Pa", "Pa", a), can("Pk", "Pk", b, proto="uart")], enums=[ev]), "noncan-binding-to-an-enum-name"))
    # sizes 57..72 with the excess in different places
    total = r.randint(57, 72)
    where = r.choice(["scalar", "array", "enum", "nested", "two-scalars", "array-of-structs", "repeated-struct"])
    hi = r.choice([0, 1, 5, 200, 300])
    # (hi == 0: an enum whose only enumerator is 0 still occupies one bit)
    en = {"name": "Pe", "values": [("lo", 0), ("hi", hi)] if hi else [("lo", 0)]}
    ew = max(1, hi.bit_length())
    if where == "scalar":
        big = {"name": "Pbig", "fields": [{"name": "a", "id": 0, "type": ("u", min(64, total - 1) if total > 1 else 1)}, {"name": "b", "id": 1, "type": ("u", max(1, total - min(64, total - 1)))}]}
        extra, enums = [big], []
    elif where == "two-scalars":
        h = total // 2
        big = {"name": "Pbig", "fields": [{"name": "b", "id": 1, "type": ("i", total - h)}, {"name": "a", "id": 0, "type": ("u", h)}]}
        extra, enums = [big], []
    elif where == "array":
        n = r.choice([2, 3, 4, 8])
        w = total // n
        rest = total - n * w
        fields = [{"name": "arr", "id": 0, "type": ("arr", ("u", w), n)}]
        if rest:
            fields.append({"name": "r", "id": 1, "type": ("u", rest)})
        big = {"name": "Pbig", "fields": fields}
        extra, enums = [big], []
    elif where == "enum":
        big = {"name": "Pbig", "fields": [{"name": "e", "id": 0, "type": ("enum", "Pe")}, {"name": "a", "id": 1, "type": ("u", min(64, total - ew))}] + ([{"name": "b", "id": 2, "type": ("u", total - ew - 64)}] if total - ew > 64 else [])}
        extra, enums = [big], [en]
    elif where == "array-of-structs":
        n = r.choice([2, 3, 4])
        w = r.randint(4, total // n - 1)
        a = r.randint(1, w - 1)
        inner = {"name": "Pel", "fields": [{"name": "p", "id": 0, "type": ("u", a)}, {"name": "q", "id": 1, "type": ("i", w - a)}]}
        rest = total - n * w
        fields = [{"name": "els", "id": 0, "type": ("arr", ("struct", "Pel"), n)}]
        if rest:
            fields.append({"name": "r", "id": 1, "type": ("u", min(rest, 64))})
            if rest > 64:
                fields.append({"name": "r2", "id": 2, "type": ("u", rest - 64)})
        big = {"name": "Pbig", "fields": fields}
        extra, enums = [inner, big], []
    elif where == "repeated-struct":
        # one struct type reached several times inside one message - as two sibling fields, through another struct,
        # and as array element - which is no cycle: the message has the size of its parts
        w = r.randint(3, 9)
        a = r.randint(1, w - 1)
        wheel = {"name": "Pwh", "fields": [{"name": "p", "id": 0, "type": ("u", a)}, {"name": "q", "id": 1, "type": ("i", w - a)}]}
        axle = {"name": "Pax", "fields": [{"name": "l", "id": 0, "type": ("struct", "Pwh")}, {"name": "r", "id": 1, "type": ("struct", "Pwh")}]}
        fields = [{"name": "spare", "id": 0, "type": ("struct", "Pwh")}, {"name": "front", "id": 1, "type": ("struct", "Pax")},
                  {"name": "rear", "id": 2, "type": ("struct", "Pax")}, {"name": "more", "id": 3, "type": ("arr", ("struct", "Pwh"), 2)}]
        rest = total - 7 * w
        if rest > 0:
            fields.append({"name": "r", "id": 4, "type": ("u", min(rest, 64))})
        r.shuffle(fields)
        big = {"name": "Pbig", "fields": fields}
        extra, enums = [wheel, axle, big], []
        total = max(total, 7 * w)
    else:
        inner = {"name": "Pin", "fields": [{"name": "p", "id": 0, "type": ("u", 20)}, {"name": "q", "id": 1, "type": ("i", 13)}]}
        big = {"name": "Pbig", "fields": [{"name": "n", "id": 0, "type": ("struct", "Pin")}, {"name": "a", "id": 1, "type": ("u", total - 33)}]}
        extra, enums = [inner, big], []
    out.append((T([can("Pbig", "Pbig", a)], extra, enums), "can-size-%d-%s" % (total, where)))
    # a CAN message of zero bits (its only field is an array of length 0) fits any frame
    out.append((T([can("Pz", "Pz", a)], [{"name": "Pz", "fields": [{"name": "pad", "id": 0, "type": ("arr", ("u", 8), 0)}]}]), "can-size-0-empty-array"))
    # exactly one bit over, the odd bit being an enum with a single enumerator valued 0 (and its 64-bit twin)
    one = {"name": "Pone", "values": [("only", 0)]}
    for tot in (64, 65):
        fs = [{"name": "a", "id": 0, "type": ("u", 32)}, {"name": "b", "id": 1, "type": ("u", tot - 33)}, {"name": "m", "id": 2, "type": ("enum", "Pone")}]
        r.shuffle(fs)
        out.append((T([can("Pbig", "Pbig", a)], [{"name": "Pbig", "fields": fs}], [one]), "can-size-%d-single-enumerator" % tot))
    return out


def run(run):
    import fcp.verifier as V

    reach = Reach([V]).start()
    wide = not run.quick
    idx = 0
    scopes = [("types", scope_types, ("general",)), ("enums", scope_enums, ("general",)),
              ("bindings", scope_bindings, ("general", "dbc", "can_c")), ("devices", scope_devices, ("general",))]
    for sname, gen, sets in scopes:
        n_scope = 0
        for t in gen(wide):
            idx += 1
            n_scope += 1
            if not run.mine(idx):
                continue
            rr = run.rng("perm", sname, idx)
            for cs in sets:
                if can_ambiguous(t, cs):
                    run.count("ambiguous_skipped")
                    continue
                judge(run, t, cs, "scope-" + sname, nperm=(1 if idx % 7 == 0 else 0), rng=rr, sample=(idx % 997 == 0))
        run.extra.setdefault("small_scope_trees", {})[sname] = n_scope if run.shard == 0 else 0
    # random larger trees with none / one injected violation
    n = run.pick(1500, 12000)
    for i in range(n):
        if not run.mine(i):
            continue
        r = run.rng("random", i)
        decls = descr.gen_description(r, ndecl=(3, 9))
        base = tree_of(decls)
        rule = RULES[i % len(RULES)]
        t = inject(r, base, rule)
        if t is None:
            continue
        judge(run, t, "general", "random/" + rule, nperm=run.pick(3, 6), rng=r, sample=(i % 97 == 0))
        run.count("injected/" + rule)
        if i % 3 == 0:
            a = aliased(r, base)
            if a is not None:
                judge(run, a[0], "general", "aliased/" + a[1], nperm=1, rng=r)
                run.count("aliased_node_trees")
    m = run.pick(300, 3000)
    for i in range(m):
        if not run.mine(i):
            continue
        r = run.rng("plugin", i)
        for t, tag in plugin_trees(r):
            for cs in ("general", "dbc", "can_c"):
                judge(run, t, cs, "plugin/" + tag, nperm=2, rng=r, sample=(i == 0 and cs != "general" and "size" in tag))
            run.count("plugin/" + tag.split("-size-")[0] if "size" not in tag else "plugin/can-size")
            edited_in_place(run, run.rng("edit", i, tag), t, ("general", "dbc", "can_c")[(i + len(tag)) % 3])
    reach.stop()
    run.extra["reach"] = {k.replace("make_general_verifier.<locals>.", ""): v for k, v in reach.summary(60).items() if "check_" in k or k.startswith("Verifier.")}
    run.exhaustive = None


def conclude(run):
    run.require("aliased_node_trees", "late_registration_verdicts", "edited_in_place_verdicts", "reused_verifier_verdicts", "verify_calls", "verdicts_agree", "expected_ok", "expected_err", "permutations_agree", "dispatch_probes")
    for rule in RULES:
        if run.counters.get("injected/" + rule, 0) == 0:
            run.inconclusive_because("rule '%s' was never injected" % rule)
    run.extra["small_scope_exhaustive_within_bounds"] = True


def replay(run, case):
    if "permuted" in case:
        a = real_verdict(run, case["tree"], case["checkset"], case)
        b = real_verdict(run, case["permuted"], case["checkset"], case)
        if a is not None and b is not None and a != b:
            run.violation("verdict changes under permutation", case)
        return
    judge(run, case["tree"], case["checkset"], case.get("origin", "replay"))
