"""C16 - the Python decoder detects truncated input instead of fabricating values."""

import signal
import time

from .. import env
from ..gen import schema as S
from ..ref import codec as ref
from ..mon.reach import Reach
from . import codec_common as CC

PROPERTY = "C16"
LEVEL = "fault_enumeration"
RULE = (
    "Faults = truncations and length-prefix corruptions of valid encodings.  For every (schema, "
    "struct, value) of the codec workload the encoder's own output (checked to equal the canonical bytes) is "
    "cut at EVERY byte boundary 0..len-1 (quick: for encodings > 24 bytes the first 8, last 8 and 6 seeded "
    "boundaries; thorough: > 64 bytes: 24 + 24 + 16; encodings above 8 KB (thorough 64 KB) are skipped); each u32 count is replaced by count+1, 2*count+1, 2^16, 2^31, 2^32-1 (tail kept, "
    "and tail dropped right after the count); each set optional flag is kept with its payload "
    "removed.  Oracle: a strict prefix must raise (the format is prefix-free per schema); for "
    "corrupted inputs the reference decoder decides (Truncated => must raise, else must return the "
    "reference value).  Work monitor: number of python calls inside fcp/serde.py during the decode "
    "(sys.monitoring) <= 64*bits(input) + 800*schema_nodes + 4000, enforced from the monitoring "
    "callback so that a runaway loop is stopped, plus a 20 s CPU alarm (twice in isolation => "
    "violation) and a memory monitor (peak RSS may not grow by more than 300 MB during one decode; "
    "the address space is capped at 8 GB so a buffer sized by an announced count surfaces as MemoryError).  distinct = distinct (shape signature, fault kind, cut position class)."
)
ASSUMPTIONS = [
    "any exception raised by decode counts as a decoding error",
    "array sizes >= 1 and no zero-width element types, so every announced element needs at least one bit",
    "the reference decoder (vf/ref/codec.py) is the specification for corrupted inputs",
]


class WorkLimit(Exception):
    pass


class CpuAlarm(BaseException):
    pass


def shards(tier):
    return 8 if tier == "quick" else 16


class Monitor:
    def __init__(self):
        import fcp.serde as sd

        self.reach = Reach([sd])
        self.limit = None
        self.start = 0
        self.max_ratio = 0.0
        self.worst = None
        mon = self.reach.mon
        if mon is None:
            return
        self.reach.start()
        E = mon.events
        reach = self.reach

        def on_start(code, offset):
            reach.counts[code.co_qualname] += 1
            reach.total += 1
            if self.limit is not None and reach.total - self.start > self.limit:
                lim = self.limit
                self.limit = None
                raise WorkLimit("more than %d calls inside fcp.serde" % lim)

        mon.register_callback(reach.tool, E.PY_START, on_start)

    def arm(self, limit):
        self.start = self.reach.total
        self.limit = limit

    def disarm(self):
        self.limit = None
        return self.reach.total - self.start


def schema_nodes(sch):
    n = 0

    def tn(t):
        return 1 + (tn(t[1]) if t[0] in ("arr", "dyn", "opt") else 0)

    for fields in sch.structs.values():
        n += 1 + sum(tn(f["type"]) for f in fields)
    return n


def work_limit(nbytes, nodes):
    return 64 * 8 * nbytes + 800 * nodes + 4000


def _alarm(signum, frame):
    raise CpuAlarm()


MEM_SLACK_KB = 300 * 1024  # a decode of a < 64 KB input may not raise the process' peak RSS by more


def limit_address_space():
    """Keeps a runaway allocation (a buffer sized by an announced 2^32-1 count) from taking the
    machine down: it surfaces as MemoryError, which the memory monitor reports."""
    import resource

    try:
        soft, hard = resource.getrlimit(resource.RLIMIT_AS)
        cap = 8 << 30
        if soft == resource.RLIM_INFINITY or soft > cap:
            resource.setrlimit(resource.RLIMIT_AS, (cap, hard))
    except (ValueError, OSError):
        pass


def guarded_decode(mon, fcp, name, data, limit):
    """Returns ('value', v) | ('raised', exc) | ('work', msg) | ('cpu', None) | ('memory', msg)."""
    import resource
    from fcp import serde

    signal.signal(signal.SIGVTALRM, _alarm)
    signal.setitimer(signal.ITIMER_VIRTUAL, 20.0)
    rss0 = resource.getrusage(resource.RUSAGE_SELF).ru_maxrss
    mon.arm(limit)
    try:
        v = serde.decode(fcp, name, bytearray(data))
        out = ("value", v, mon.disarm())
    except WorkLimit as e:
        mon.disarm()
        out = ("work", str(e), limit)
    except CpuAlarm:
        mon.disarm()
        out = ("cpu", None, 0)
    except MemoryError as e:
        mon.disarm()
        out = ("memory", "MemoryError while decoding a %d byte input" % len(data), 0)
    except Exception as e:
        out = ("raised", e, mon.disarm())
    finally:
        signal.setitimer(signal.ITIMER_VIRTUAL, 0)
    grown = resource.getrusage(resource.RUSAGE_SELF).ru_maxrss - rss0
    if out[0] in ("value", "raised") and len(data) < (1 << 16) and grown > MEM_SLACK_KB:
        return ("memory", "peak RSS grew by %d MB while decoding a %d byte input" % (grown >> 10, len(data)), 0)
    return out


def cut_points(run, n, key):
    full, edge, mid = run.pick((24, 8, 6), (64, 24, 16))
    if n > 400:
        full, edge, mid = run.pick((0, 3, 2), (0, 8, 8))
    if n <= full:
        return list(range(n))
    r = run.rng("cuts", key)
    pts = set(range(edge)) | set(range(n - edge, n)) | set(r.sample(range(edge, n - edge), min(mid, n - 2 * edge)))
    return sorted(pts)


def judge(run, mon, fcp, sch, name, data, text, kind, expect, nodes, sig, value=None):
    """expect: ('raise',) or ('value', v)."""
    limit = work_limit(len(data), nodes)
    out = guarded_decode(mon, fcp, name, data, limit)
    case = {"schema": text, "struct": name, "input": bytes(data), "fault": kind, "original_value": value}
    if out[0] == "cpu":
        out = guarded_decode(mon, fcp, name, data, limit)
        if out[0] == "cpu":
            run.violation("decode of a %d byte input did not finish within 20 s CPU (twice)" % len(data), case)
            return
    run.count("decodes_judged")
    if out[0] == "work":
        run.violation("work bound exceeded while decoding a %d byte input: %s" % (len(data), out[1]), case)
        return
    if out[0] == "memory":
        run.violation("memory not bounded by the input length: %s (%s)" % (out[1], kind), case)
        return
    calls = out[2]
    if calls / float(limit) > mon.max_ratio:
        mon.max_ratio = calls / float(limit)
        mon.worst = {"struct": name, "input_bytes": len(data), "fault": kind, "calls": calls, "limit": limit}
    if expect[0] == "raise":
        if out[0] == "value":
            case["returned"] = out[1]
            run.violation("decode returned a value for %s" % kind, case)
            return
        run.count("truncations_rejected")
    else:
        if out[0] == "raised":
            # all announced bytes are present: raising (e.g. on a non-ASCII byte or an
            # out-of-range value the corruption produced) is a legitimate decoding error
            run.count("parsable_corruptions_rejected")
            run.case(sig=sig)
            return
        if not ref.same(out[1], expect[1]):
            model, n = CC.signed_min_model(sch, ("struct", name), expect[1])
            if n and ref.same(out[1], model):
                # known finding serde-signed-min-decodes-positive (C01/C02's business): the corrupted input
                # happens to hold the pattern 100..0 in a signed field; nothing was fabricated
                run.count("parsable_corruptions_with_signed_min")
                run.case(sig=sig)
                return
            case["returned"] = out[1]
            case["reference"] = expect[1]
            run.violation("decode of a corrupted-but-parsable input differs from the reference (%s)" % kind, case)
            return
        run.count("parsable_corruptions_agree")
    run.case(sig=sig)


def faults_for(run, sch, name, v, data, key):
    """Yield (kind, bytes, cut class)."""
    n = len(data)
    for c in cut_points(run, n, key):
        cls = "0" if c == 0 else ("last" if c == n - 1 else ("mid" if c * 2 < n else "late"))
        yield ("prefix@%d/%d" % (c, n), data[:c], "prefix-" + cls)
    canon, marks = ref.encode_traced(sch, name, v)
    if canon != data:
        return  # C02's business; only prefixes are judged for a non canonical encoder
    keep = run.pick(3, 20)
    if len(marks) > 2 * keep:
        marks = marks[:keep] + marks[-keep:]
    for pos, val, kind in marks:
        if kind in ("str", "dyn"):
            for new in (val + 1, 2 * val + 1, 1 << 16, 1 << 31, (1 << 32) - 1):
                if new == val or new >= (1 << 32):
                    continue
                patched = ref.patch_bits(data, pos, 32, new)
                yield ("%s count %d->%d tail kept" % (kind, val, new), patched, "count-%s-kept-%s" % (kind, "big" if new >= 65536 else "small"))
                cut = (pos + 32 + 7) // 8
                yield ("%s count %d->%d tail dropped" % (kind, val, new), patched[:cut], "count-%s-dropped-%s" % (kind, "big" if new >= 65536 else "small"))
        elif kind == "opt" and val == 1:
            cut = (pos + 8 + 7) // 8
            if cut < n:
                yield ("optional flag set, payload removed", data[:cut], "opt-nopayload")
            # flag cleared->set is covered by count corruption analog: None -> Some without data
        elif kind == "opt" and val == 0:
            patched = ref.patch_bits(data, pos, 8, 1)
            yield ("optional flag 0->1 tail kept", patched, "opt-set-kept")


def run(run):
    from fcp import serde

    n, problems, used = ref.self_check(env.REPO)
    if problems:
        run.inconclusive_because("reference codec fails its self-check: %s" % problems[:2])
        return
    if run.shard == 0:
        optimized_interpreter(run)
    mon = Monitor()
    limit_address_space()
    units = CC.schema_units(run, with_big=False)
    # fewer random schemas than C01: each case fans out into dozens of faults
    keep = run.pick(40, 900)
    units = [u for u in units if not u[0].startswith("rand") or int(u[0][4:]) < keep]
    for i, unit in enumerate(units):
        if not run.mine(i):
            continue
        uid = unit[0]
        unit = (uid, unit[1], run.pick(1, 3), unit[3])
        text, sch, cases = CC.unit_cases(run, unit)
        res = CC.parse(text)
        if res.is_err():
            run.violation("front end rejected a well-formed codec schema: %r" % (res.err(),), {"schema": text})
            continue
        fcp = res.unwrap()
        nodes = schema_nodes(sch)
        seen_per_struct = {}
        for name, v, sig in cases:
            j = seen_per_struct.get(name, 0)  # index of this value among the values of ITS struct
            seen_per_struct[name] = j + 1
            if uid.startswith(("grid", "cgrid")) and j not in run.pick((3,), (2, 3, 4)):  # asym (+max, random) values for the grids
                continue
            try:
                data = bytes(serde.encode(fcp, name, v))
            except Exception:
                continue  # C01's business
            # a VALID encoding is one that equals the canonical bytes (an encoder that emits something else is
            # C02's business); whether the decoder maps the complete input back to v is C01's - its strict
            # prefixes must be rejected either way
            if len(data) == 0 or data != ref.encode(sch, name, v):
                run.count("encodings_not_canonical_skipped")
                continue
            if len(data) > run.pick(8192, 65536):
                # every fault costs one decode of the whole input (the decoder loads it bit by bit)
                run.count("encodings_over_the_size_bound_skipped")
                continue
            run.count("valid_encodings")
            for kind, inp, cls in faults_for(run, sch, name, v, data, "%s/%s/%d" % (uid, name, j)):
                if kind.startswith("prefix"):
                    expect = ("raise",)
                else:
                    try:
                        expect = ("value", ref.decode(sch, name, inp))
                    except ref.Truncated:
                        expect = ("raise",)
                judge(run, mon, fcp, sch, name, inp, text, kind, expect, nodes, sig.split("|")[0] + "|" + cls, v)
                if len(run.samples) < 4 and kind.startswith(("prefix@1", "str count", "dyn count")) and len(text) < 1200:
                    run.sample({"schema": text, "struct": name, "value": v, "fault": kind, "input": inp, "expected": expect[0]})
    grown_struct_history(run, mon)
    mon.reach.stop()
    run.extra["worst_work_case_of_shard_%d" % run.shard] = dict(mon.worst or {}, ratio=round(mon.max_ratio, 4))
    run.extra["reach"] = mon.reach.summary(12)
    run.exhaustive = None


def grown_struct_history(run, mon):
    """A struct is decoded once, then GROWN in place on the same schema object (a field appended or a new
    lowest-id field added), and values of the grown struct are encoded: every strict prefix of the new
    encoding must be rejected by the decoder that had seen the old shape."""
    from fcp import serde
    from fcp.specs.struct_field import StructField
    from fcp.specs import type as T
    from ..gen import shapes

    for k in range(run.pick(8, 64)):
        if not run.mine(k):
            continue
        r = run.rng("grown", k)
        decls = [shapes.mk_struct("Inner", [("q", 0, ("u", 8))]),
                 shapes.mk_struct("Grow", [("id", 1, ("u", 8)), ("payload", 2, ("dyn", ("u", 8))), ("n", 3, ("struct", "Inner"))])]
        text = S.print_schema(decls)
        res = CC.parse(text)
        if res.is_err():
            run.violation("front end rejected a well-formed codec schema: %r" % (res.err(),), {"schema": text})
            return
        fcp = res.unwrap()
        v = {"id": r.randint(0, 255), "payload": [r.randint(0, 255) for _ in range(r.randint(0, 4))], "n": {"q": 7}}
        try:
            serde.decode(fcp, "Grow", bytearray(serde.encode(fcp, "Grow", v)))
        except Exception:
            continue
        which = k % 3
        target = "Inner" if which == 2 else "Grow"
        new = [("crc", 9, ("u", 16)), ("first", 0, ("u", 8)), ("r", 5, ("u", 16))][which]
        fcp.get_struct(target).unwrap().fields.append(StructField(new[0], new[1], T.UnsignedType("u%d" % new[2][1])))
        decls2 = [shapes.mk_struct(d["name"], [(f["name"], f["id"], f["type"]) for f in d["fields"]] + ([new] if d["name"] == target else [])) for d in decls]
        sch2 = S.Sch(decls2)
        v2 = {"id": v["id"], "payload": v["payload"], "n": {"q": 7}}
        (v2["n"] if which == 2 else v2)[new[0]] = 0xBEEF if new[2][1] == 16 else 0xA5
        data2 = ref.encode(sch2, "Grow", v2)
        try:
            if bytes(serde.encode(fcp, "Grow", v2)) != data2:
                continue  # the encoder's business (C02)
        except Exception:
            continue
        text2 = S.print_schema(decls2) + "// reached by growing the parsed tree in place after a decode\n"
        for cut in range(len(data2)):
            judge(run, mon, fcp, sch2, "Grow", data2[:cut], text2, "prefix@%d/%d" % (cut, len(data2)), ("raise",), schema_nodes(sch2), "grown-in-place|%s|%s" % (target, new[0]), v2)
        run.count("structs_grown_in_place_after_a_decode")


OPT_SCRIPT = r"""
import json, sys
from fcp.parser import get_fcp_from_string
from fcp.error import Logger
from fcp import serde
job = json.load(sys.stdin)
fcp = get_fcp_from_string(job["schema"], Logger({})).unwrap()
out = []
for name, hx in job["inputs"]:
    try:
        out.append(["value", repr(serde.decode(fcp, name, bytearray(bytes.fromhex(hx))))[:200]])
    except BaseException as e:
        out.append(["raised", type(e).__name__])
print(json.dumps(out))
"""


def optimized_interpreter(run):
    """Strict prefixes decoded by interpreters started with -O / -OO (assert statements compiled away): still
    rejected."""
    import json
    import subprocess
    import sys as _sys
    from ..gen import shapes, values as V

    decls = [
        shapes.mk_enum("Mode", 5),
        shapes.mk_struct("In", [("p", 1, ("i", 6)), ("q", 0, ("u", 3))]),
        shapes.mk_struct("Msg", [("a", 0, ("u", 5)), ("o", 1, ("opt", ("u", 9))), ("s", 2, ("str",)), ("n", 3, ("struct", "In")),
                                 ("l", 4, ("dyn", ("enum", "Mode"))), ("f", 5, ("arr", ("f32",), 2)), ("w", 6, ("u", 64)), ("z", 7, ("i", 3))]),
    ]
    sch = S.Sch(decls)
    text = S.print_schema(decls)
    r = run.rng("optimized")
    inputs = []
    for v in V.struct_values(r, sch, "Msg", 3, {"finite": True})[:5]:
        data = ref.encode(sch, "Msg", v)
        for cut in range(len(data)):
            inputs.append(["Msg", data[:cut].hex()])
    for flag in ("-O", "-OO"):
        try:
            p = subprocess.run([_sys.executable, flag, "-c", OPT_SCRIPT], input=json.dumps({"schema": text, "inputs": inputs}), capture_output=True, text=True, timeout=600, env=env.child_env())
            res = json.loads(p.stdout)
        except Exception as e:
            run.inconclusive_because("python %s child failed: %s: %s" % (flag, type(e).__name__, str(e)[:200]))
            return
        for (name, hx), (status, got) in zip(inputs, res):
            if status != "raised":
                run.violation("under python %s a strict prefix (%d bytes) decodes to a value" % (flag, len(hx) // 2), {"schema": text, "struct": name, "input": bytes.fromhex(hx), "fault": "prefix under python " + flag, "returned": got})
                return
            run.count("prefixes_rejected_under_optimizing_interpreters")


def conclude(run):
    run.require("valid_encodings", "decodes_judged", "truncations_rejected")
    worst = [v for k, v in run.extra.items() if k.startswith("worst_work_case_of_shard_")]
    for k in [k for k in run.extra if k.startswith("worst_work_case_of_shard_")]:
        del run.extra[k]
    if worst:
        run.extra["worst_work_case"] = max(worst, key=lambda w: w.get("ratio", 0))


def replay(run, case):
    res = CC.parse(case["schema"])
    if res.is_err():
        run.violation("front end rejected the schema", case)
        return
    mon = Monitor()
    fcp = res.unwrap()
    data = case["input"]
    out = guarded_decode(mon, fcp, case["struct"], data, work_limit(len(data), 200))
    mon.reach.stop()
    if out[0] == "value" and case["fault"].startswith(("prefix", "optional flag set")):
        run.violation("decode returned a value for %s" % case["fault"], dict(case, returned=out[1]))
    elif out[0] in ("work", "cpu", "memory"):
        run.violation("work / memory bound exceeded: %s" % (out[1],), case)
    elif "reference" in case and out[0] == "value" and not ref.same(out[1], case["reference"]):
        run.violation("differs from reference", case)
