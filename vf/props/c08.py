"""C08 - accepted schemas have no dangling or mis-kinded type references."""

import copy
import os
import re
import shutil

from .. import env
from ..gen import schema as S, descr
from ..mon.reach import Reach
from . import parse_common as PC

PROPERTY = "C08"
LEVEL = "exploration"
RULE = (
    "Positive: schemas of 2-7 structs/enums (long unique names) whose fields reference earlier "
    "declarations through random container nestings ([T,n], [T], Optional[T], depth <= 4, one in eight 8..30 levels deep), also "
    "across 'mod' imports (including two modules with the same file name in different directories, one "
    "of them imported transitively); a post-parse walker checks every Struct/Enum leaf of every accepted tree: "
    "resolves through get_struct/get_enum/get_type to exactly one declaration of the tagged kind "
    "that precedes the use.  Negative: the same schemas with one declaration removed (undeclared), "
    "moved after its first use (forward), replaced by a self reference, or moved into a module that "
    "is imported after the use, or with the unresolved reference inside a directly / transitively imported "
    "module; must return Err (no exception, no tree) whose message chain names "
    "the missing type and the enclosing struct and whose rendered diagnostic cites the line of the "
    "offending reference; edit histories (one process parses a root, its module is rewritten on disk - a declaration dropped or an enum turned into a struct - and the root is parsed again); a third of the forward / undeclared cases is repeated with a second fault behind it (a type nested 150..700 levels), judged on rejection only.  distinct = (mutation kind, container path of the offending reference, "
    "kind of referenced declaration)."
)
ASSUMPTIONS = [
    "type names are unique, except in the dedicated struct/enum name-collision scenario where only 'the resolved declaration has the tagged kind' is judged",
    "type names are unique (duplicates are the verifier's domain) and avoid builtin-type prefixes (K4)",
    "the offending reference is the first unresolved one in source order",
]


def shards(tier):
    return 8 if tier == "quick" else 16


def long_ident(r, used):
    if r.random() < 0.06:
        # user type names shaped like integer types that do not exist: u128, i1000, u256
        for n in ("u128", "i128", "u256", "i1000", "u100", "i999"):
            if n not in used:
                used.add(n)
                return n
    while True:
        # (one name in ten begins with an underscore, or is all lower case / all upper case: no spelling is private)
        lead = r.choice(["_", "__", "_x", "q", "QQ_"]) if r.random() < 0.1 else ""
        if r.random() < 0.05:
            # identifiers have no length limit: 70 .. 300 characters (an error names them in full)
            lead = lead + "Long" + "".join(r.choice("abcdefghijklmnopqrstuvwxyz_0123456789") for _ in range(r.choice([70, 90, 120, 300])))
        n = lead + r.choice("ABCDEFGHJKLMNPQRSTVWXYZ") + "".join(r.choice("abcdefghijklmnopqrstuvwxyz0123456789") for _ in range(6)) + r.choice("QXZ")
        if n not in used and not descr.K4_RE.match(n):
            used.add(n)
            return n


def wrap(r, leaf, maxdepth=4):
    t = leaf
    # one reference in eight sits below 8..30 container levels (an error chain has one entry per level)
    depth = r.randint(8, 30) if maxdepth == 4 and r.random() < 0.125 else r.choice([0, 0, 1, 1, 2, 3, maxdepth])
    for _ in range(depth):
        c = r.random()
        if c < 0.4:
            # (an array length of 0 is accepted by the front end like any other)
            t = ("arr", t, (0 if r.random() < 0.12 else r.randint(1, 5)) if depth <= 4 else r.randint(1, 2))
        elif c < 0.7:
            t = ("dyn", t)
        else:
            t = ("opt", t)
    return t


def gen_refschema(r):
    used = set()
    decls = []
    types = []
    n = r.randint(2, 7)
    for i in range(n):
        if i > 0 and r.random() < 0.3:
            nm = long_ident(r, used)
            decls.append({"kind": "enum", "name": nm, "values": [("A" + nm, 0), ("B" + nm, r.randint(1, 300))]})
            types.append(("enum", nm))
            continue
        nm = long_ident(r, used)
        fields = []
        for j in range(r.randint(1, 4)):
            if types and r.random() < 0.7:
                t = wrap(r, r.choice(types))
            else:
                t = wrap(r, r.choice([("u", r.randint(1, 64)), ("i", r.randint(1, 64)), ("f32",), ("f64",), ("str",)]))
            fields.append({"name": "f%d_%s" % (j, nm.lower()), "id": j, "type": t})
            # field parameters next to the reference (they are evaluated around the type's resolution)
            c = r.random()
            if c < 0.2:
                fields[-1]["range"] = (r.choice([0, -1.5, 2.25]), r.choice([10, 255, 1000.5]))
            elif c < 0.3:
                fields[-1]["unit"] = r.choice(["V", "rpm", "m/s"])
            elif c < 0.35:
                fields[-1]["range"] = (0, 1)
                fields[-1]["unit"] = "x"
        decls.append({"kind": "struct", "name": nm, "fields": fields})
        types.append(("struct", nm))
        if r.random() < 0.35:
            # an explicit binding right behind its struct, half of them renamed (impl p for S as Alias): binding
            # names are not type names
            alias = long_ident(r, used) if r.random() < 0.5 else None
            decls.append({"kind": "impl", "protocol": r.choice(["can", "uart"]), "type": nm, "name": alias, "items": [("field", "id", i)]})
    return decls


def leaf_of(t):
    while t[0] in ("arr", "dyn", "opt"):
        t = t[1]
    return t


def replace_leaf(t, new):
    if t[0] == "arr":
        return ("arr", replace_leaf(t[1], new), t[2])
    if t[0] in ("dyn", "opt"):
        return (t[0], replace_leaf(t[1], new))
    return new


def first_unresolved(decls):
    """(type name, struct name, field name, container path, ref kind) of the first reference, in
    source order, to a name that is not declared earlier."""
    seen = {}
    for d in decls:
        if d["kind"] == "struct":
            for f in d["fields"]:
                leaf = leaf_of(f["type"])
                if leaf[0] in ("struct", "enum") and leaf[1] not in seen:
                    return leaf[1], d["name"], f["name"], S.type_kinds(f["type"])[:-1], leaf[0]
            seen[d["name"]] = "struct"
        elif d["kind"] == "enum":
            seen[d["name"]] = "enum"
    return None


def mutate(r, decls, kind):
    """Returns mutated declaration list or None when the mutation does not apply."""
    decls = copy.deepcopy(decls)
    refs = []
    for di, d in enumerate(decls):
        if d["kind"] == "struct":
            for fi, f in enumerate(d["fields"]):
                leaf = leaf_of(f["type"])
                if leaf[0] in ("struct", "enum"):
                    refs.append((di, fi, leaf))
    if kind == "self":
        structs = [i for i, d in enumerate(decls) if d["kind"] == "struct"]
        di = r.choice(structs)
        f = r.choice(decls[di]["fields"])
        f["type"] = replace_leaf(wrap(r, ("u", 8)) if leaf_of(f["type"])[0] not in ("struct", "enum") else f["type"], ("struct", decls[di]["name"]))
        return decls
    if kind == "alias":
        # a field whose type is the NAME OF A BINDING (impl p for S as Alias) declared before it
        aliases = [(i, d["name"]) for i, d in enumerate(decls) if d["kind"] == "impl" and d["name"]]
        if not aliases:
            return None
        ai, alias = r.choice(aliases)
        later = [i for i, d in enumerate(decls) if d["kind"] == "struct" and i > ai]
        if not later:
            decls.append({"kind": "struct", "name": "User" + alias, "fields": [{"name": "u_" + alias.lower(), "id": 0, "type": ("u", 8)}]})
            later = [len(decls) - 1]
        # the first later struct, so that this is the first unresolved reference of the file
        f = decls[later[0]]["fields"][0]
        f["type"] = wrap(r, ("struct", alias))
        f.pop("range", None)
        return decls
    if kind in ("service-name", "device-name", "enumerator-name", "method-name"):
        # a field whose type is a name that IS declared earlier in the file - as a service, a device, a method or an
        # enumerator, not as a struct or an enum: names of other kinds are not types
        structs = [i for i, d in enumerate(decls) if d["kind"] == "struct"]
        if len(structs) < 2:
            return None
        first, user = structs[0], structs[-1]
        sname = decls[first]["name"]
        if kind == "enumerator-name":
            enums = [d for i, d in enumerate(decls) if d["kind"] == "enum" and i < user]
            if not enums:
                return None
            name = r.choice(enums)["values"][0][0]
        else:
            name = {"service-name": "Svc", "device-name": "Dev", "method-name": "Mth"}[kind] + sname
            svc = {"kind": "service", "name": "Svc" + sname if kind != "device-name" else "Sv2" + sname, "id": 3,
                   "methods": [{"name": "Mth" + sname, "id": 0, "input": sname, "output": sname}]}
            extra = [svc]
            if kind == "device-name":
                extra.append({"kind": "device", "name": name, "fields": [("services", [("id", svc["name"])])]})
            pos = r.randint(first + 1, user)
            decls[pos:pos] = extra
            user += len(extra)
        if any(d.get("name") == name for d in decls if d["kind"] in ("struct", "enum")):
            return None
        f = decls[user]["fields"][0]
        f["type"] = wrap(r, ("struct", name))
        f.pop("range", None)
        if first_unresolved(decls) is None or first_unresolved(decls)[0] != name:
            return None
        return decls
    if not refs:
        return None
    di, fi, leaf = r.choice(refs)
    target = [i for i, d in enumerate(decls) if d["kind"] in ("struct", "enum") and d["name"] == leaf[1]][0]
    if kind == "undeclared":
        del decls[target]
        return decls
    if kind == "forward":
        first_user = min(i for i, _, l in refs if l[1] == leaf[1])
        d = decls.pop(target)
        # after removal indices >= target shift by one; first_user > target always
        pos = r.randint(first_user, len(decls))
        decls.insert(pos, d)
        return decls
    if kind == "misspelled":
        f = decls[di]["fields"][fi]
        f["type"] = replace_leaf(f["type"], (leaf[0], leaf[1] + "x"))
        return decls
    if kind == "case-variant":
        # the declared name in another letter case: names are case-sensitive
        f = decls[di]["fields"][fi]
        other = leaf[1].swapcase() if r.random() < 0.5 else leaf[1].lower()
        if other == leaf[1] or any(d.get("name") == other for d in decls):
            return None
        f["type"] = replace_leaf(f["type"], (leaf[0], other))
        return decls
    raise ValueError(kind)


def walk_tree(run, fcp, case):
    """Post-parse walker over an accepted tree.  Returns number of reference leaves checked."""
    from fcp.specs.type import StructType, EnumType

    n = 0
    struct_names = [s.name for s in fcp.structs]
    enum_names = [e.name for e in fcp.enums]
    for si, st in enumerate(fcp.structs):
        for f in st.fields:
            t = f.type
            while hasattr(t, "underlying_type"):
                t = t.underlying_type
            if isinstance(t, StructType):
                n += 1
                if t.type != "Struct":
                    run.violation("StructType leaf tagged '%s'" % t.type, case)
                if struct_names.count(t.name) != 1 or fcp.get_struct(t.name).is_nothing():
                    run.violation("field %s.%s references struct '%s' which resolves to %d declarations" % (st.name, f.name, t.name, struct_names.count(t.name)), case)
                    continue
                node = fcp.get_type(t)
                if node.is_nothing() or node.unwrap() is not fcp.get_struct(t.name).unwrap():
                    run.violation("get_type(%s.%s) does not resolve to the struct declaration '%s'" % (st.name, f.name, t.name), case)
                if struct_names.index(t.name) >= si:
                    run.violation("field %s.%s references struct '%s' that is not declared earlier" % (st.name, f.name, t.name), case)
            elif isinstance(t, EnumType):
                n += 1
                if t.type != "Enum":
                    run.violation("EnumType leaf tagged '%s'" % t.type, case)
                if enum_names.count(t.name) != 1 or fcp.get_enum(t.name).is_nothing():
                    run.violation("field %s.%s references enum '%s' which resolves to %d declarations" % (st.name, f.name, t.name, enum_names.count(t.name)), case)
                    continue
                node = fcp.get_type(t)
                if t.name not in struct_names and (node.is_nothing() or node.unwrap() is not fcp.get_enum(t.name).unwrap()):
                    run.violation("get_type(%s.%s) does not resolve to the enum declaration '%s'" % (st.name, f.name, t.name), case)
                e = fcp.get_enum(t.name).unwrap()
                if e.meta is not None and st.meta is not None and e.meta.filename == st.meta.filename:
                    if not e.meta.start_pos < st.meta.start_pos:
                        run.violation("field %s.%s references enum '%s' declared later in the same file" % (st.name, f.name, t.name), case)
                    run.count("enum_order_checked")
    return n


def line_of(text, name, after=0):
    m = re.compile(r"(?<![A-Za-z0-9_])%s(?![A-Za-z0-9_])" % re.escape(name)).search(text, after)
    return None if m is None else text.count("\n", 0, m.start()) + 1


def judge_negative(run, decls, text, kind, parse, fname="main.fcp", sig_extra=""):
    want = first_unresolved(decls)
    case = {"mutation": kind, "text": text, "expected_missing_type": want}
    if want is None:
        return False
    tname, sname, fieldname, path, refkind = want
    try:
        res, lg = parse()
    except BaseException as e:
        run.violation("%s reference raised %s: %s" % (kind, type(e).__name__, str(e)[:200]), case)
        return True
    run.count("negative_parsed")
    if res.is_ok():
        n = walk_tree(run, res.unwrap(), case)
        run.violation("schema with a %s type reference ('%s' in struct %s) was accepted" % (kind, tname, sname), case)
        return True
    msg = repr(res.err())
    word = lambda w: re.search(r"(?<![A-Za-z0-9_])%s(?![A-Za-z0-9_])" % re.escape(w), msg) is not None
    if not word(tname):
        run.violation("error for a %s reference does not name the type '%s': %s" % (kind, tname, msg[:300]), case)
        return True
    if not word(sname):
        run.violation("error for a %s reference does not name the enclosing struct '%s': %s" % (kind, sname, msg[:300]), case)
        return True
    try:
        rendered = PC.ANSI.sub("", lg.error(res.err()))
    except BaseException as e:
        run.violation("rendering the error raised %s: %s" % (type(e).__name__, e), case)
        return True
    # the offending reference: first occurrence of the type name inside the field of that struct
    m = re.compile(r"(?<![A-Za-z0-9_])%s(?![A-Za-z0-9_])" % re.escape(fieldname)).search(text)
    want_line = line_of(text, tname, m.start() if m else 0)
    cited = [int(x) for x in re.findall(r"\[%s:(-?\d+)\]" % re.escape(fname), rendered)]
    if want_line not in cited:
        case["rendered"] = rendered
        run.violation("diagnostic cites lines %s of %s, the offending reference is on line %s" % (cited, fname, want_line), case)
        return True
    run.count("negative_rejected_well")
    run.case(sig="neg|%s|%s|%s%s" % (kind, "/".join(path), refkind, sig_extra))
    if len(run.samples) < 3 and len(text) < 700:
        run.sample({"mutation": kind, "text": text, "error": msg, "cited_line": want_line})
    return True


def one_schema(run, i, tmp):
    r = run.rng("schema", i)
    decls = gen_refschema(r)
    style = S.Style(run.rng("style", i)) if i % 2 else S.Style()
    text = S.print_schema(decls, style)
    case = {"text": text}
    try:
        res, lg = PC.parse_string(text)
    except BaseException as e:
        run.violation("well-formed schema raised %s: %s" % (type(e).__name__, str(e)[:200]), case)
        return
    if res.is_err():
        run.violation("well-formed schema rejected: %r" % (res.err(),), case)
        return
    n = walk_tree(run, res.unwrap(), case)
    run.count("reference_leaves_walked", n)
    run.count("positive_trees_walked")
    if S.expected_dict(decls)["structs"] != res.unwrap().to_dict()["structs"]:
        run.violation("type tags / names differ from the declared ones", case)
    paths = set()
    for d in decls:
        if d["kind"] == "struct":
            for f in d["fields"]:
                lf = leaf_of(f["type"])
                if lf[0] in ("struct", "enum"):
                    paths.add("/".join(S.type_kinds(f["type"])))
    for p in paths:
        run.case(sig="pos|" + p)
    if not paths:
        run.case(sig="pos|noref")
    for kind in ("undeclared", "forward", "self", "misspelled", "alias", "case-variant", "service-name", "device-name", "enumerator-name", "method-name"):
        rr = run.rng("mut", i, kind)
        m = mutate(rr, decls, kind)
        if m is None:
            continue
        st = S.Style(run.rng("mstyle", i, kind)) if i % 3 else S.Style()
        mtext = S.print_schema(m, st)
        judge_negative(run, m, mtext, kind, lambda: PC.parse_string(mtext))
        if i % 5 == 1:
            # the same text with an import of a module that does not exist LATER in the file: the unresolved
            # reference comes first and is what the error is about
            mtext2 = mtext.rstrip("\n") + "\nmod no_such_module_%d;\n" % i
            judge_negative(run, m, mtext2, kind, lambda: PC.parse_string(mtext2), sig_extra="|missing-mod-behind")
        if kind in ("forward", "undeclared") and i % 3 == 0:
            # the same unresolved reference with a SECOND fault behind it: a type nested deeper than the
            # transformer can walk.  Which of the two errors is reported is the front end's choice; that
            # the schema is rejected (no tree, no exception) is not.
            depth = rr.choice([150, 250, 300, 350, 450, 700])
            t = ("u", 8)
            for _ in range(depth):
                t = ("opt", t) if rr.random() < 0.5 else ("dyn", t)
            deep = m + [{"kind": "struct", "name": "DeepTail%d" % i, "fields": [{"name": "d", "id": 0, "type": t}]}]
            dtext = S.print_schema(deep)
            case2 = {"mutation": kind + " + a type nested %d levels behind it" % depth, "text": dtext[:3000]}
            try:
                res2, _lg = PC.parse_string(dtext)
                if res2.is_ok():
                    walk_tree(run, res2.unwrap(), case2)
                    run.violation("schema with a %s type reference was accepted once a deeply nested type follows it" % kind, case2)
                else:
                    run.count("negative_with_second_fault_rejected")
                    run.case(sig="neg2|%s|depth%d" % (kind, depth))
            except BaseException as e:
                run.violation("%s reference followed by a deeply nested type raised %s: %s" % (kind, type(e).__name__, str(e)[:200]), case2)
    # module variants: the first half of the declarations lives in a module
    if i % 4 == 0 and len(decls) >= 2:
        cut = r.randint(1, len(decls) - 1)
        modname = "mod%d" % i
        moddecls, rest = decls[:cut], decls[cut:]
        d = os.path.join(tmp, "s%d" % i)
        os.makedirs(d, exist_ok=True)
        modtext = S.print_schema(moddecls)
        if i % 8 == 0:
            modtext = " ".join(modtext.split("\n"))  # every declaration of the module on ONE source line
            run.count("one_line_modules")
        open(os.path.join(d, modname + ".fcp"), "w").write(modtext)
        main_ok = S.print_schema([{"kind": "mod", "path": [modname]}] + rest)
        open(os.path.join(d, "main.fcp"), "w").write(main_ok)
        try:
            res, lg = PC.parse_file(os.path.join(d, "main.fcp"))
            if res.is_err():
                run.violation("reference to a type of a module imported earlier rejected: %r" % (res.err(),), {"main": main_ok, "module": modtext})
            else:
                n = walk_tree(run, res.unwrap(), {"main": main_ok, "module": modtext})
                got_names = sorted(x.name for x in res.unwrap().structs + res.unwrap().enums)
                want_names = sorted(x["name"] for x in decls if x["kind"] in ("struct", "enum"))
                if got_names != want_names:
                    run.violation("schema importing a module declares types %s, the files declare %s" % (got_names, want_names), {"main": main_ok, "module": modtext})
                run.count("reference_leaves_walked", n)
                run.count("module_positive")
                run.case(sig="pos|module")
        except BaseException as e:
            run.violation("module import raised %s: %s" % (type(e).__name__, str(e)[:200]), {"main": main_ok})
        # imported after the use
        if first_unresolved(rest) is not None:
            main_bad = S.print_schema(rest + [{"kind": "mod", "path": [modname]}])
            open(os.path.join(d, "main.fcp"), "w").write(main_bad)
            if judge_negative(run, rest, main_bad, "imported-later", lambda: PC.parse_file(os.path.join(d, "main.fcp")), sig_extra="|module"):
                run.count("module_negative")
        shutil.rmtree(d, ignore_errors=True)


def module_cause(run, i, tmp):
    """An unresolved reference INSIDE an imported module (direct or through a nested dotted import):
    the error must still name the type and the enclosing struct, not only the import."""
    r = run.rng("modcause", i)
    decls = gen_refschema(r)
    kind = r.choice(["undeclared", "forward", "self", "misspelled"])
    m = mutate(r, decls, kind)
    if m is None or first_unresolved(m) is None:
        return
    tname, sname, fieldname, path, refkind = first_unresolved(m)
    d = os.path.join(tmp, "mc%d" % i)
    nested = r.random() < 0.5
    os.makedirs(os.path.join(d, "sub"))
    body = S.print_schema(m)
    importer_decls = ""
    if kind == "undeclared" and r.random() < 0.6:
        # the missing type IS declared - by the importing file, before the mod line (or by a sibling
        # module imported earlier): a module only sees what it declares or imports itself
        importer_decls = "enum %s { A%s = 0, B%s = 1, }\n" % (tname, tname, tname)
    files = {"sub/inner.fcp": body}
    if nested:
        files["outer.fcp"] = 'version: "3"\nmod sub.inner;\n'
        files["main.fcp"] = 'version: "3"\n' + importer_decls + 'mod outer;\nstruct Tail%dQ { a @0: u8, }\n' % i
    else:
        files["main.fcp"] = 'version: "3"\n' + importer_decls + 'mod sub.inner;\nstruct Tail%dQ { a @0: u8, }\n' % i
    for rel, txt in files.items():
        open(os.path.join(d, rel), "w").write(txt)
    case = {"files": files, "mutation": kind + " inside a module", "expected_missing_type": (tname, sname)}
    try:
        res, lg = PC.parse_file(os.path.join(d, "main.fcp"))
    except BaseException as e:
        run.violation("unresolved reference inside a module raised %s: %s" % (type(e).__name__, str(e)[:200]), case)
        return
    finally:
        shutil.rmtree(d, ignore_errors=True)
    run.count("module_cause_parsed")
    if res.is_ok():
        run.violation("a module with a %s reference ('%s' in struct %s) was accepted" % (kind, tname, sname), case)
        return
    msg = repr(res.err())
    word = lambda w: re.search(r"(?<![A-Za-z0-9_])%s(?![A-Za-z0-9_])" % re.escape(w), msg) is not None
    if not word(tname) or not word(sname):
        run.violation("error for a %s reference inside an imported module does not name %s: %s" % (kind, "the type '%s'" % tname if not word(tname) else "the enclosing struct '%s'" % sname, msg[:300]), case)
        return
    run.count("module_cause_named")
    run.case(sig="neg|%s|in-module|%s" % (kind, "nested" if nested else "direct"))


def name_collision(run, i):
    """The parser accepts a struct and an enum of the same name (the verifier rejects that later).
    Whatever a reference is tagged as, resolving it must give a declaration of THAT kind."""
    from fcp.specs.type import StructType, EnumType
    from fcp.specs.struct import Struct
    from fcp.specs.enum import Enum

    r = run.rng("collision", i)
    used = set()
    n = long_ident(r, used)
    holder = long_ident(r, used)
    st = {"kind": "struct", "name": n, "fields": [{"name": "inner_" + n.lower(), "id": 0, "type": ("u", 8)}]}
    en = {"kind": "enum", "name": n, "values": [("A" + n, 0), ("B" + n, 2)]}
    first, second = (st, en) if r.random() < 0.5 else (en, st)
    ref = wrap(r, ("struct", n))
    decls = [first, second, {"kind": "struct", "name": holder, "fields": [{"name": "ref_" + holder.lower(), "id": 0, "type": ref}]}]
    text = S.print_schema(decls)
    case = {"text": text}
    res, lg = PC.parse_string(text)
    run.count("collision_schemas")
    if res.is_err():
        return  # rejecting the ambiguous schema is fine
    fcp = res.unwrap()
    t = [s for s in fcp.structs if s.name == holder][0].fields[0].type
    while hasattr(t, "underlying_type"):
        t = t.underlying_type
    node = fcp.get_type(t)
    if node.is_nothing():
        run.violation("reference to '%s' (declared as struct and as enum) resolves to nothing" % n, case)
        return
    want = Struct if isinstance(t, StructType) else Enum
    if not isinstance(node.unwrap(), want):
        run.violation("reference to '%s' is tagged %s but get_type resolves it to a %s" % (n, type(t).__name__, type(node.unwrap()).__name__), case)
        return
    run.count("collision_references_consistent")
    run.case(sig="pos|struct-enum-name-collision|%s-first|%s" % (first["kind"], "/".join(S.type_kinds(ref)[:-1])))


def same_basename_modules(run, i, tmp):
    """main imports ca/types.fcp and li/frames.fcp; li/frames.fcp imports li/types.fcp (same file name,
    other directory).  Every reference of the accepted tree must still resolve."""
    r = run.rng("samebase", i)
    used = set()

    def pair(tag):
        e = long_ident(r, used)
        st = long_ident(r, used)
        return [
            {"kind": "enum", "name": e, "values": [("A" + e, 0), ("B" + e, 3)]},
            {"kind": "struct", "name": st, "fields": [{"name": "k_" + st.lower(), "id": 0, "type": wrap(r, ("enum", e))}, {"name": "n_" + st.lower(), "id": 1, "type": ("u", 8)}]},
        ]

    a, b = pair("a"), pair("b")
    frame = long_ident(r, used)
    frames = [{"kind": "struct", "name": frame, "fields": [{"name": "p_" + frame.lower(), "id": 0, "type": wrap(r, ("struct", b[1]["name"]))}, {"name": "q_" + frame.lower(), "id": 1, "type": wrap(r, ("enum", b[0]["name"]))}]}]
    top = long_ident(r, used)
    rest = [{"kind": "struct", "name": top, "fields": [
        {"name": "x_" + top.lower(), "id": 0, "type": wrap(r, ("struct", a[1]["name"]))},
        {"name": "y_" + top.lower(), "id": 1, "type": wrap(r, ("struct", frame))},
        {"name": "z_" + top.lower(), "id": 2, "type": wrap(r, ("enum", b[0]["name"]))},
    ]}]
    d = os.path.join(tmp, "sb%d" % i)
    os.makedirs(os.path.join(d, "ca"))
    os.makedirs(os.path.join(d, "li"))
    files = {
        "ca/types.fcp": S.print_schema(a),
        "li/types.fcp": S.print_schema(b),
        "li/frames.fcp": S.print_schema([{"kind": "mod", "path": ["types"]}] + frames),
        "main.fcp": S.print_schema([{"kind": "mod", "path": ["ca", "types"]}, {"kind": "mod", "path": ["li", "frames"]}] + rest),
    }
    order = r.random() < 0.5
    if order:
        files["main.fcp"] = S.print_schema([{"kind": "mod", "path": ["li", "frames"]}, {"kind": "mod", "path": ["ca", "types"]}] + rest)
    for rel, txt in files.items():
        open(os.path.join(d, rel), "w").write(txt)
    case = {"files": files}
    try:
        res, lg = PC.parse_file(os.path.join(d, "main.fcp"))
    except BaseException as e:
        run.violation("module tree with same-named modules raised %s: %s" % (type(e).__name__, str(e)[:200]), case)
        return
    finally:
        shutil.rmtree(d, ignore_errors=True)
    if res.is_err():
        run.violation("module tree with two modules named types.fcp in different directories rejected: %r" % (res.err(),), case)
        return
    n = walk_tree(run, res.unwrap(), case)
    got = sorted(x.name for x in res.unwrap().structs + res.unwrap().enums)
    want = sorted(x["name"] for x in a + b + frames + rest)
    if got != want:
        run.violation("module tree with same-named modules declares %s, the files declare %s" % (got, want), case)
        return
    run.count("reference_leaves_walked", n)
    run.count("same_basename_module_trees")
    run.case(sig="pos|same-basename-modules|%s" % order)


def edited_module(run, i, tmp):
    """One process, one path: an imported module is parsed, then EDITED on disk (a declaration removed, or
    an enum turned into a struct of the same name), and the root is parsed again.  The second parse must see
    the module as it is now: the dropped name is unresolved (Err naming it), the changed kind is tagged anew."""
    r = run.rng("edited-module", i)
    used = set()
    en, st, user = long_ident(r, used), long_ident(r, used), long_ident(r, used)
    d = os.path.join(tmp, "e%d" % i)
    os.makedirs(d, exist_ok=True)
    part_v1 = [{"kind": "enum", "name": en, "values": [("A" + en, 0), ("B" + en, 3)]},
               {"kind": "struct", "name": st, "fields": [{"name": "p_" + st.lower(), "id": 0, "type": ("u", 8)}]}]
    main = [{"kind": "mod", "path": ["part"]},
            {"kind": "struct", "name": user, "fields": [{"name": "k_" + user.lower(), "id": 0, "type": wrap(r, ("enum", en))},
                                                        {"name": "s_" + user.lower(), "id": 1, "type": wrap(r, ("struct", st))}]}]
    main_text = S.print_schema(main)
    open(os.path.join(d, "main.fcp"), "w").write(main_text)
    edit = ["drop-struct", "drop-enum", "enum-becomes-struct"][i % 3]
    if edit == "drop-struct":
        part_v2 = part_v1[:1]
        missing = (st, "s_" + user.lower())
    elif edit == "drop-enum":
        part_v2 = part_v1[1:]
        missing = (en, "k_" + user.lower())
    else:
        part_v2 = [{"kind": "struct", "name": en, "fields": [{"name": "q_" + en.lower(), "id": 0, "type": ("i", 4)}]}, part_v1[1]]
        main2 = copy.deepcopy(main)
        main2[1]["fields"][0]["type"] = replace_leaf(main2[1]["fields"][0]["type"], ("struct", en))
        missing = None
    for step, part in (("first", part_v1), ("edited", part_v2), ("restored", part_v1)):
        ptext = S.print_schema(part)
        open(os.path.join(d, "part.fcp"), "w").write(ptext)
        case = {"main": main_text, "module": ptext, "step": step, "edit": edit, "what": "the module file was rewritten between two parses of the same root in one process"}
        try:
            res, lg = PC.parse_file(os.path.join(d, "main.fcp"))
        except BaseException as e:
            run.violation("parse after a module edit raised %s: %s" % (type(e).__name__, str(e)[:200]), case)
            return
        run.count("parses_around_a_module_edit")
        if step != "edited" or missing is None:
            if res.is_err():
                run.violation("root rejected (%s module): %r" % (step, res.err()), case)
                return
            walk_tree(run, res.unwrap(), case)
            if step == "edited":
                # the name is a struct now: the reference written as an enum reference in main must be tagged by the declaration's kind
                tagged = [type(f.type).__name__ for s_ in res.unwrap().structs if s_.name == user for f in s_.fields]
                leaf = res.unwrap().get_struct(user).unwrap().fields[0].type
                while hasattr(leaf, "underlying_type"):
                    leaf = leaf.underlying_type
                if type(leaf).__name__ != "StructType":
                    run.violation("after the module turned '%s' from an enum into a struct the reference is still tagged %s" % (en, type(leaf).__name__), case)
                    return
        else:
            if res.is_ok():
                run.violation("after '%s' was removed from the module the root is still accepted (stale module)" % missing[0], case)
                return
            if missing[0] not in repr(res.err()):
                run.violation("error after the module edit does not name the type '%s': %s" % (missing[0], repr(res.err())[:300]), case)
                return
    run.count("module_edit_histories")
    run.case(sig="edited-module|%s" % edit)
    shutil.rmtree(d, ignore_errors=True)


def run(run):
    import fcp.parser as P

    reach = Reach([P]).start()
    tmp = env.scratch("c08")
    try:
        n = run.pick(500, 12000)
        for i in range(n):
            if run.mine(i):
                one_schema(run, i, tmp)
                if i % 4 == 1:
                    same_basename_modules(run, i, tmp)
                if i % 4 == 2:
                    module_cause(run, i, tmp)
                if i % 4 == 3:
                    name_collision(run, i)
                if i % 8 == 5:
                    edited_module(run, i, tmp)
    finally:
        shutil.rmtree(tmp, ignore_errors=True)
        reach.stop()
    run.extra["reach"] = {k: v for k, v in reach.summary(80).items() if "composed_type" in k or "mod_expr" in k or "optional_type" in k or "array_type" in k}


def conclude(run):
    run.require("positive_trees_walked", "reference_leaves_walked", "negative_parsed", "negative_rejected_well", "module_positive", "module_negative", "same_basename_module_trees", "module_cause_named", "collision_references_consistent", "one_line_modules")


def replay(run, case):
    text = case.get("text")
    if text is None:
        run.inconclusive_because("module cases are replayed by re-running the check with the same seed")
        return
    res, lg = PC.parse_string(text)
    if case.get("mutation"):
        if res.is_ok():
            run.violation("schema with a %s reference accepted" % case["mutation"], case)
        else:
            want = case.get("expected_missing_type")
            msg = repr(res.err())
            if want and (want[0] not in msg or want[1] not in msg):
                run.violation("error does not name type and struct: %s" % msg[:300], case)
    else:
        if res.is_err():
            run.violation("well-formed schema rejected", case)
        else:
            walk_tree(run, res.unwrap(), case)
