"""C15 - field ids, not declaration order, fix the wire order in every back end."""

import copy
import itertools
import json
import os
import shutil

from .. import env
from ..gen import schema as S, cansch, cppbatch, shapes, values as V
from ..ref import codec as ref, layout as RL, canpack
from ..native import cpp, driver
from . import codec_common as CC, cpp_common as PP, c04, c05, c06
from .c13 import all_leaves_whole_bytes, K1

PROPERTY = "C15"
LEVEL = "exploration"
RULE = (
    "Metamorphic twins: a schema S and S' obtained by permuting the field declarations of its "
    "structs (ids kept; every permutation for the focus struct when it has <= 4 fields, seeded random "
    "ones beyond; nested structs permuted too; asymmetric field widths so any reordering changes "
    "the bytes).  For S and every S': the packed layout of every binding (both unroll settings), "
    "the DBC text, the Python codec's bytes for the same values, the frames of the generated C "
    "(compiled, ASan+UBSan) and the bytes / decoded values of the generated C++ static and "
    "reflection-loaded codecs (compiled, ASan+UBSan) must be identical, and equal to the id-ordered "
    "reference (codec / layout / packing).  distinct = (back end, struct shape signature, "
    "permutation)."
)
ASSUMPTIONS = [
    "the reflection-loaded C++ encoder is subject to known finding cpp-dynamic-encode-unpacked; twins must still agree with each other",
    "values are matched by field name between twins",
]


def shards(tier):
    return 6 if tier == "quick" else 16


def permuted(decls, r, focus=None, perm=None):
    out = copy.deepcopy(decls)
    for d in out:
        if d["kind"] != "struct":
            continue
        if focus is not None and d["name"] == focus and perm is not None:
            d["fields"] = [d["fields"][i] for i in perm]
        else:
            r.shuffle(d["fields"])
    return out


def layouts(fcp, sch):
    out = {}
    for unroll in (True, False):
        enc = c04.encoder(fcp, unroll)
        for impl in fcp.impls:
            try:
                RL.layout(sch, impl.type, unroll)
            except RL.Outside:
                continue
            except KeyError:
                continue
            out[(impl.name, impl.protocol, unroll)] = c04.snap(enc.generate(impl))
    return out


def dbc_text(fcp):
    import fcp_dbc

    return {f["bus"]: str(f["contents"]) for f in fcp_dbc.Generator().generate(fcp, {"output": "out"})}


def python_part(run, i):
    """Layout + DBC + Python codec on a CAN schema and its twins."""
    from fcp import serde

    r = run.rng("py", i)
    decls = cansch.gen_can_schema(r, prefix="T", max_bindings=3, flat=False, big_endian=True, mux=True)
    sch = S.Sch(decls)
    base_text = S.print_schema(decls)
    res = CC.parse(base_text)
    if res.is_err():
        run.violation("front end rejected the schema: %r" % (res.err(),), {"schema": base_text})
        return
    fcp0 = res.unwrap()
    lay0 = layouts(fcp0, sch)
    dbc0 = dbc_text(fcp0)
    vals = {}
    py0 = {}
    rv = run.rng("pyvals", i)
    for name in sch.structs:
        vals[name] = V.struct_values(rv, sch, name, 3)
        py0[name] = [bytes(serde.encode(fcp0, name, v)) for v in vals[name]]
        for v, b in zip(vals[name], py0[name]):
            if b != ref.encode(sch, name, v):
                run.violation("Python codec bytes differ from the id-ordered reference", {"schema": base_text, "struct": name, "value": v, "bytes": b})
                return
    focus = [d for d in decls if d["kind"] == "struct" and any(x["kind"] == "impl" and x["type"] == d["name"] for x in decls)][0]
    nf = len(focus["fields"])
    perms = list(itertools.permutations(range(nf))) if nf <= 4 else [tuple(r.sample(range(nf), nf)) for _ in range(12)]
    if run.quick and len(perms) > 8:
        perms = r.sample(perms, 8)
    for pi, perm in enumerate(perms):
        if list(perm) == list(range(nf)):
            continue
        twin = permuted(decls, r, focus["name"], perm)
        text = S.print_schema(twin)
        case = {"schema": base_text, "twin": text, "permutation": list(perm), "focus": focus["name"]}
        if pi % 3 == 1:
            # the twin is made by permuting the field LISTS of a parsed tree in place (what a program that
            # builds or edits a schema object does), not by re-parsing permuted text
            res = CC.parse(base_text)
            if res.is_ok():
                by_name = {d["name"]: [f["name"] for f in d["fields"]] for d in twin if d["kind"] == "struct"}
                for st in res.unwrap().structs:
                    order = by_name[st.name]
                    st.fields.sort(key=lambda f: order.index(f.name))
            case["twin_made_by"] = "permuting the field lists of the parsed tree in place"
            run.count("twins_made_on_the_tree_object")
        else:
            res = CC.parse(text)
        if res.is_err():
            run.violation("front end rejected the permuted twin: %r" % (res.err(),), case)
            return
        fcp1 = res.unwrap()
        lay1 = layouts(fcp1, S.Sch(twin))
        if lay1 != lay0:
            k = [k for k in lay0 if lay1.get(k) != lay0[k]][:1]
            case["binding"] = k
            run.violation("packed layout changes when field declarations are permuted (ids kept): %s" % (k,), case)
            return
        run.count("layout_twins_equal")
        run.case(sig="layout|%s|%s" % (shapes.shape_sig(sch, focus["name"]), perm))
        try:
            dbc1 = dbc_text(fcp1)
        except Exception as e:
            run.violation("DBC generation fails on the twin only: %s" % e, case)
            return
        if dbc1 != dbc0:
            run.violation("generated DBC changes when field declarations are permuted (ids kept)", case)
            return
        run.count("dbc_twins_equal")
        run.case(sig="dbc|%s|%s" % (shapes.shape_sig(sch, focus["name"]), perm))
        # the `describe` back end (wire layout as text) is a function of the ids too
        try:
            from fcp.describe import describe
            from fcp.specs.type import StructType

            for name in sch.structs:
                d0, d1 = describe(fcp0, StructType(name)), describe(fcp1, StructType(name))
                if d0 != d1:
                    run.violation("`describe` output of %s changes when field declarations are permuted (ids kept)" % name, dict(case, struct=name, described=d0[:800], twin_described=d1[:800]))
                    return
                run.count("describe_twins_equal")
        except ImportError:
            pass
        for name in sch.structs:
            for v, b0 in zip(vals[name], py0[name]):
                try:
                    b1 = bytes(serde.encode(fcp1, name, v))
                    d1 = serde.decode(fcp1, name, bytearray(b0))
                except Exception as e:
                    run.violation("Python codec raises on the twin: %s: %s" % (type(e).__name__, e), dict(case, struct=name, value=v))
                    return
                if b1 != b0:
                    run.violation("Python codec bytes change when field declarations are permuted (ids kept)", dict(case, struct=name, value=v, bytes=b0, twin_bytes=b1))
                    return
                if not ref.same(d1, serde.decode(fcp0, name, bytearray(b0))):
                    run.violation("Python codec of the twin decodes the original's bytes to a different value than the original schema does", dict(case, struct=name, value=v))
                    return
                run.count("python_twins_equal")
        run.case(sig="python|%s|%s" % (shapes.shape_sig(sch, focus["name"]), perm))
    if len(run.samples) < 2 and len(base_text) < 900:
        run.sample({"schema": base_text, "a_twin": S.print_schema(permuted(decls, r)), "layout": lay0[sorted(lay0, key=repr)[0]][:6]})


def python_var_part(run, i):
    """Python codec on twins of schemas with variable-size types (structs inside dynamic arrays,
    optionals, strings), which the CAN-style schemas of python_part cannot contain."""
    from fcp import serde

    r = run.rng("pyvar", i)
    decls = shapes.random_codec_schema(r, n_structs=(2, 5), prefix="W")
    # structs of one leaf kind only (all floats, all whole-byte integers), alone and nested behind whole-byte members
    decls.append(shapes.mk_struct("WGyro%d" % i, [("x", 0, ("f32",)), ("y", 1, ("f64",)), ("z", 2, ("f32",))]))
    decls.append(shapes.mk_struct("WBytes%d" % i, [("lo", 0, ("u", 8)), ("mid", 1, ("u", 16)), ("hi", 2, ("i", 32)), ("top", 3, ("u", 64))]))
    decls.append(shapes.mk_struct("WNav%d" % i, [("t", 0, ("u", 16)), ("fix", 1, ("struct", "WGyro%d" % i)), ("raw", 2, ("struct", "WBytes%d" % i)), ("l", 3, ("dyn", ("struct", "WGyro%d" % i)))]))
    sch = S.Sch(decls)
    text = S.print_schema(decls)
    res = CC.parse(text)
    if res.is_err():
        run.violation("front end rejected the schema: %r" % (res.err(),), {"schema": text})
        return
    fcp0 = res.unwrap()
    rv = run.rng("pyvarvals", i)
    vals = {n: V.struct_values(rv, sch, n, 3) for n in sch.structs}
    for k in range(run.pick(2, 5)):
        twin = permuted(decls, r)
        ttext = S.print_schema(twin)
        res = CC.parse(ttext)
        if res.is_err():
            run.violation("front end rejected the permuted twin: %r" % (res.err(),), {"schema": text, "twin": ttext})
            return
        fcp1 = res.unwrap()
        for name in sch.structs:
            for v in vals[name]:
                case = {"schema": text, "twin": ttext, "struct": name, "value": v}
                try:
                    b0 = bytes(serde.encode(fcp0, name, v))
                    b1 = bytes(serde.encode(fcp1, name, v))
                except Exception as e:
                    run.violation("Python codec raises: %s: %s" % (type(e).__name__, e), case)
                    return
                if b0 != b1:
                    run.violation("Python codec bytes change when field declarations are permuted (ids kept)", dict(case, bytes=b0, twin_bytes=b1))
                    return
                if b0 != ref.encode(sch, name, v):
                    run.violation("Python codec bytes differ from the id-ordered reference", dict(case, bytes=b0))
                    return
                try:
                    same = ref.same(serde.decode(fcp1, name, bytearray(b0)), serde.decode(fcp0, name, bytearray(b0)))
                except Exception as e:
                    run.violation("Python codec raises while decoding: %s: %s" % (type(e).__name__, e), case)
                    return
                if not same:
                    run.violation("Python codec of the twin decodes the same bytes to a different value", case)
                    return
                run.count("python_var_twins_equal")
    # history: a schema object that the codec has ALREADY used grows - another parsed schema is merged into it, or
    # its structs are appended one by one - and the newcomers are the schema above resp. its twin
    base_text = 'version: "3"\nstruct GrowBase { a @0: u8, b @1: u16, }\n'
    twin = permuted(decls, r)
    grown = []
    for tag, dd in (("orig", decls), ("twin", twin)):
        try:
            f = CC.parse(base_text).unwrap()
            serde.decode(f, "GrowBase", serde.encode(f, "GrowBase", {"a": 1, "b": 515}))
            newcomer = CC.parse(S.print_schema(dd)).unwrap()
            if i % 2:
                f.merge(newcomer)
            else:
                for st in newcomer.structs:
                    f.structs.append(st)
                f.enums.extend(newcomer.enums)
            grown.append(f)
        except Exception as e:
            run.violation("growing a schema object that is in use raised %s: %s" % (type(e).__name__, e), {"schema": text})
            return
    for name in sch.structs:
        for v in vals[name][:2]:
            case = {"schema": text, "twin": S.print_schema(twin), "struct": name, "value": v,
                    "history": "both schemas were %s into a schema object the codec had already used" % ("merged" if i % 2 else "appended struct by struct")}
            try:
                b0 = bytes(serde.encode(grown[0], name, v))
                b1 = bytes(serde.encode(grown[1], name, v))
                d1 = serde.decode(grown[1], name, bytearray(b0))
                d0 = serde.decode(grown[0], name, bytearray(b0))
            except Exception as e:
                run.violation("Python codec raises on a grown schema object: %s: %s" % (type(e).__name__, e), case)
                return
            if b0 != b1 or not ref.same(d0, d1):
                run.violation("Python codec bytes change when field declarations are permuted (ids kept) - on a schema object that grew while in use", dict(case, bytes=b0, twin_bytes=b1))
                return
            if b0 != ref.encode(sch, name, v):
                run.violation("Python codec bytes differ from the id-ordered reference on a schema object that grew while in use", dict(case, bytes=b0))
                return
            run.count("python_grown_schema_twins_equal")
    run.case(sig="pythonvar|%d" % i)


def c_part(run, i, root):
    r = run.rng("c", i)
    decls = cansch.gen_can_schema(r, prefix="U", max_bindings=3, flat=True, buses=False, big_endian=False, mux=False, devices=True)
    decls = [d for d in decls if not (d["kind"] == "impl" and d["protocol"] != "can") and not (d["kind"] == "struct" and d["name"].endswith("Other"))]
    twin = permuted(decls, r)
    frames = []
    for tag, dd in (("orig", decls), ("twin", twin)):
        work = os.path.join(root, "c%d_%s" % (i, tag))
        os.makedirs(work)
        case = {"description": dd}
        b = c06.build(run, dd, work, case)
        if b is None:
            return
        rv = run.rng("cvals", i)
        lines = []
        meta = []
        for mi, m in enumerate(b["msgs"]):
            types = {l[0]: l[3] for l in m["leaves"]}
            for k in range(8):
                mode = ["zero", "min", "max", "asym"][k] if k < 4 else "random"
                vals = {nm: c05.gen_leaf_value(rv, types[nm], b["sch"], mode) for nm in sorted(types)}
                lines.append("E %d %s" % (mi, " ".join(c06.fmt_value(types[nm], vals[nm]) for nm in m["members"])))
                meta.append((m["name"], tuple(sorted((k2, repr(v2)) for k2, v2 in vals.items())), canpack.pack(m["leaves"], vals, 8).hex()))
        outputs, crashes = driver.run_commands(b["binary"], lines, b["dir"])
        if crashes:
            run.violation("generated C harness crashed on the %s schema" % tag, dict(case, stderr=crashes[0][3][-800:]))
            return
        frames.append({(n, vs): (o[0] if o else None, want) for (n, vs, want), o in zip(meta, outputs)})
        shutil.rmtree(work, ignore_errors=True)
    a, bb = frames
    for key in a:
        if key not in bb:
            run.violation("twin lacks a message of the original", {"schema": S.print_schema(decls)})
            return
        fa, want = a[key]
        fb, _ = bb[key]
        case = {"schema": S.print_schema(decls), "twin": S.print_schema(twin), "message": key[0], "values": key[1], "frame": fa, "twin_frame": fb}
        if fa != fb:
            run.violation("generated C frame changes when field declarations are permuted (ids kept)", case)
            return
        if fa is None or fa.split()[-1] != want:
            run.violation("generated C frame differs from the id-ordered reference packing %s" % want, case)
            return
        run.count("c_twins_equal")
    run.case(sig="c|%d" % i)


def cpp_part(run, bi, root):
    r = run.rng_ns("cppbatch15", bi)
    decls, can = cppbatch.gen_batch(r, 100 + bi, services=False, can=False, n_random=(4, 6), out_of_order=True)
    twin = permuted(decls, r)
    answers = []
    sch0 = S.Sch(decls)
    for tag, dd in (("orig", decls), ("twin", twin)):
        b = PP.Batch(run, 1000 + 2 * bi + (tag == "twin"), root, decls=dd, can_bindings=[])
        if not b.ok:
            b.cleanup()
            return
        lines = []
        meta = []
        for name in sch0.structs:
            if len({f["id"] for f in sch0.structs[name]}) != len(sch0.structs[name]):
                continue  # fields sharing an id are ordered by declaration among themselves: not a twin case
            rv = run.rng_ns("cppvalues15", bi, name)
            for vi, v in enumerate(V.struct_values(rv, sch0, name, 4, {"finite": True})):
                canon = ref.encode(sch0, name, v)
                t = ("struct", name)
                for op, payload in (("SE", json.dumps(PP.to_json(sch0, t, v))), ("DE", json.dumps(PP.to_json(sch0, t, v, True))), ("SD", canon.hex()), ("DD", canon.hex())):
                    lines.append("%s %s %s" % (op, name, payload))
                    meta.append((op, name, vi, v, canon))
        # (the twin's reflection binary is loaded TWICE into the one DynamicSchema object - an application re-reading
        # its schema file: the declaration order of the file read last must not matter either)
        outputs, crashes = cpp.run(b.binary, lines, b.dir, reflection=b.refl, reload=(tag == "twin"))
        if PP.report_crashes(run, crashes, lines, b.case, "C++ codecs on the %s schema" % tag):
            b.cleanup()
            return
        answers.append({(op, name, vi): ((o[0] if o else None), v, canon) for (op, name, vi, v, canon), o in zip(meta, outputs)})
        b.cleanup()
    a, bb = answers
    for key, (oa, v, canon) in a.items():
        ob = bb[key][0]
        op, name, vi = key
        case = {"schema": S.print_schema(decls), "twin": S.print_schema(twin), "op": op, "struct": name, "value": v, "canonical": canon, "answer": oa, "twin_answer": ob}
        if op in ("SE", "DE"):
            same = oa == ob
        else:
            try:
                same = oa is not None and ob is not None and oa[:3] == "OK " and ob[:3] == "OK " and json.loads(oa[3:]) == json.loads(ob[3:])
            except ValueError:
                same = False
        if not same:
            run.violation("generated C++ (%s) answers differently when field declarations are permuted (ids kept)" % {"SE": "static encode", "DE": "reflection-loaded encode", "SD": "static decode", "DD": "reflection-loaded decode"}[op], case)
            return
        if op == "SE" and oa != "OK " + canon.hex():
            run.violation("generated C++ static bytes differ from the id-ordered reference", case)
            return
        if op == "DE" and oa != "OK " + canon.hex():
            narrow = PP.narrow_id_schema(sch0, name)
            if narrow is not None and oa == "OK " + ref.encode(narrow, name, v).hex():
                run.known_finding(PP.K_NARROW, "reflection-loaded encoder orders a field id outside 0..2^32-1 mod 2^32 (twins agree)", {"struct": name})
            elif not all_leaves_whole_bytes(sch0, ("struct", name)) and oa == "OK " + ref.encode_leaf_aligned(sch0, name, v).hex():
                run.known_finding(K1, "reflection-loaded encoder: unpacked bytes (twins agree)", {"struct": name})
            else:
                run.violation("reflection-loaded C++ bytes differ from the id-ordered reference", case)
                return
        run.count("cpp_twins_equal")
    run.case(sig="cpp|%d" % bi)


def run(run):
    root = env.scratch("c15")
    try:
        n_py = run.pick(40, 600)
        n_c = run.pick(8, 120)
        n_cpp = run.pick(3, 24)
        work = [("cpp", i) for i in range(n_cpp)] + [("c", i) for i in range(n_c)] + [("py", i) for i in range(n_py)] + [("pyvar", i) for i in range(n_py)]
        for wi, (kind, i) in enumerate(work):
            if not run.mine(wi):
                continue
            if kind == "py":
                python_part(run, i)
            elif kind == "pyvar":
                python_var_part(run, i)
            elif kind == "c":
                c_part(run, i, root)
            else:
                cpp_part(run, i, root)
    finally:
        shutil.rmtree(root, ignore_errors=True)


def conclude(run):
    run.require("layout_twins_equal", "dbc_twins_equal", "python_twins_equal", "python_var_twins_equal", "python_grown_schema_twins_equal", "c_twins_equal", "cpp_twins_equal")


def replay(run, case):
    run.inconclusive_because("C15 cases are replayed by re-running the check with the recorded seed (schema and twin are in the replay file)")
