"""C04 - the packed CAN layout tiles the message."""

import copy

from .. import env
from ..gen import schema as S, cansch
from ..ref import layout as RL
from ..mon.reach import Reach
from . import codec_common as CC

PROPERTY = "C04"
LEVEL = "exploration"
RULE = (
    "Fixed-size struct shapes (widths 1..64, f32/f64, enums of every width class, nested structs, "
    "arrays of scalars/structs/arrays, ids out of declaration order, renamed bindings, several "
    "protocols, signal blocks on scalar fields) are parsed by the real front end (every third one is "
    "also built directly with the node classes, fields in declaration order); for every binding "
    "and both unroll_arrays settings the list returned by make_encoder('packed').generate(impl) is "
    "checked (a) structurally: starts at 0, contiguous, no overlap, unique names, total = struct "
    "size; (b) against the reference layout (names, order, widths); (c) history: one long-lived "
    "encoder serves a random sequence of 5-60 generate() calls (repeats, all bindings, and calls that "
    "fail part-way because the struct has a variable-size field), every result "
    "must equal a fresh encoder's and every previously returned list must stay unchanged; (d) "
    "options: a scalar field's signal block appears exactly on that field's leaf, leaves of "
    "differently named fields carry none.  distinct = (shape signature of the struct, unroll, "
    "has-signal-blocks)."
)
ASSUMPTIONS = [
    "signal blocks are generated only for scalar, non-array fields",
    "a not-unrolled array of structs raises ValueError in the encoder and is outside the statement",
    "the wire width of an enum leaf is max(1, bit_length(max enumerator))",
]


def shards(tier):
    return 8 if tier == "quick" else 16


def snap(values):
    return [
        (v.name, v.bitstart, v.bitlength, v.endianess, repr(sorted((v.extended_data or {}).items(), key=repr)), repr(v.type), v.unit)
        for v in values
    ]


def encoder(fcp, unroll):
    from fcp.encoding import make_encoder, PackedEncoderContext

    return make_encoder("packed", fcp, PackedEncoderContext().with_unroll_arrays(unroll))


def expected_options(d, sch):
    """{field name: (endianess, options dict)} from the signal blocks of binding d."""
    out = {}
    for name, fl in S.impl_signals(d):
        opts = {k: S.dval(v) for k, v in fl}
        out[name] = (opts.get("endianess") or "little", opts)
    return out


def check_binding(run, fcp, sch, d, impl, unroll, text, values=None):
    case = {"schema": text, "binding": S.impl_name(d), "protocol": d["protocol"], "unroll_arrays": unroll, "description": getattr(run, "_c04_decls", None)}
    try:
        want = RL.layout(sch, d["type"], unroll)
    except RL.Outside:
        run.count("outside_statement")
        return None
    try:
        got = values if values is not None else encoder(fcp, unroll).generate(impl)
    except Exception as e:
        run.violation("generate() raised %s: %s" % (type(e).__name__, e), case)
        return None
    run.count("layouts_checked")
    case["layout"] = [(v.name, v.bitstart, v.bitlength) for v in got]
    case["reference"] = [(n, s, w) for n, s, w, _, _ in want]
    # (a) structural invariants
    pos = 0
    names = set()
    for v in got:
        if v.bitstart != pos:
            run.violation("leaf %s starts at bit %d, previous leaf ended at %d (%s)" % (v.name, v.bitstart, pos, "gap" if v.bitstart > pos else "overlap"), case)
            return None
        if v.bitlength <= 0:
            run.violation("leaf %s has width %d" % (v.name, v.bitlength), case)
            return None
        if v.name in names:
            run.violation("leaf name %s is not unique" % v.name, case)
            return None
        names.add(v.name)
        pos += v.bitlength
    if pos != sch.width(("struct", d["type"])):
        run.violation("layout covers %d bits, the struct has %d" % (pos, sch.width(("struct", d["type"]))), case)
        return None
    # (b) reference layout
    if [(v.name, v.bitstart, v.bitlength) for v in got] != [(n, s, w) for n, s, w, _, _ in want]:
        run.violation("layout differs from the reference layout (order / names / widths)", case)
        return None
    # (d) option placement
    exp = expected_options(d, sch)
    for v, (n, s, w, t, fname) in zip(got, want):
        ed = dict(v.extended_data or {})
        # (a block is looked up by the field's own name: it reaches that field also where the field sits inside a
        # nested struct)
        if fname in exp and n.split("::")[-1] == fname:
            e_end, e_opts = exp[fname]
            if ed != e_opts or v.endianess != e_end:
                case["leaf"] = n
                run.violation("leaf %s carries options %r / byte order %s, its signal block declares %r / %s" % (n, ed, v.endianess, e_opts, e_end), case)
                return None
            run.count("option_leaves_checked")
        elif fname not in exp:
            if ed or v.endianess != "little":
                case["leaf"] = n
                run.violation("leaf %s of field '%s' carries options %r / byte order %s although no signal block names that field" % (n, fname, ed, v.endianess), case)
                return None
    return got


def one_schema(run, i):
    r = run.rng("schema", i)
    decls = cansch.gen_layout_schema(r)
    check_decls(run, decls, r)
    if i % 3 == 0:
        check_decls(run, decls, run.rng("api", i), variant="api")


def check_decls(run, decls, r, variant="parsed"):
    text = S.print_schema(decls)
    run._c04_decls = decls
    res = CC.parse(text)
    if res.is_err():
        run.violation("front end rejected a well-formed schema: %r" % (res.err(),), {"schema": text})
        return
    fcp = res.unwrap()
    sch = S.Sch(decls)
    if variant == "api":
        # the same schema built directly with the node classes (no parser in between): the layout
        # must not depend on anything the parser does to the tree
        from . import c09

        fcp = c09.build(c09.tree_of(decls))
        run.count("api_built_trees")
    bindings = []
    for d in sch.impls():
        impls = [x for x in fcp.impls if x.name == S.impl_name(d) and x.protocol == d["protocol"]]
        if len(impls) != 1:
            run.violation("binding %s/%s not found exactly once in the tree" % (S.impl_name(d), d["protocol"]), {"schema": text})
            return
        bindings.append((d, impls[0]))
    # default bindings too
    for name in sch.structs:
        dd = {"kind": "impl", "protocol": "default", "type": name, "name": None, "items": []}
        impls = [x for x in fcp.impls if x.name == name and x.protocol == "default"]
        if impls:
            bindings.append((dd, impls[0]))
    for unroll in (True, False):
        fresh = {}
        failing = []
        for bi, (d, impl) in enumerate(bindings):
            try:
                RL.layout(sch, d["type"], unroll)
            except RL.Outside:
                failing.append(bi)
            got = check_binding(run, fcp, sch, d, impl, unroll, text)
            if got is not None:
                fresh[bi] = snap(got)
                from ..gen import shapes

                run.case(sig="%s|unroll=%s|blocks=%s" % (shapes.shape_sig(sch, d["type"]), unroll, bool(S.impl_signals(d))))
                if len(run.samples) < 3 and len(text) < 900 and S.impl_signals(d):
                    run.sample({"schema": text, "binding": S.impl_name(d), "unroll_arrays": unroll, "layout": fresh[bi]})
        if not fresh:
            continue
        # (c) history on one long-lived encoder, whose context object is also the base of a sibling
        # context with the opposite unroll setting (deriving a context must not change the original)
        from fcp.encoding import make_encoder, PackedEncoderContext

        base_ctx = PackedEncoderContext(unroll_arrays=unroll)
        enc = make_encoder("packed", fcp, base_ctx)
        sibling = make_encoder("packed", fcp, base_ctx.with_unroll_arrays(not unroll))
        run.count("shared_context_histories")
        hist = []
        returned = []
        keys = sorted(fresh)
        for step in range(r.randint(5, run.pick(25, 60))):
            if failing and r.random() < 0.25:
                # a call the encoder cannot serve (variable-size field / array of structs without
                # unrolling): whatever it does - normally raise - later calls must be unaffected
                fd, fimpl = bindings[r.choice(failing)]
                try:
                    enc.generate(fimpl)
                except Exception:
                    pass
                hist.append("(failing) " + S.impl_name(fd) + "/" + fd["protocol"])
                run.count("history_failing_calls")
                continue
            bi = r.choice(keys)
            d, impl = bindings[bi]
            case = {"schema": text, "unroll_arrays": unroll, "history": hist + [S.impl_name(d) + "/" + d["protocol"]], "description": decls, "history_seed": None}
            try:
                out = enc.generate(impl)
            except Exception as e:
                run.violation("generate() #%d on a reused encoder raised %s: %s" % (step, type(e).__name__, e), case)
                return
            hist.append(S.impl_name(d) + "/" + d["protocol"])
            if snap(out) != fresh[bi]:
                case["got"] = snap(out)
                case["fresh"] = fresh[bi]
                run.violation("layout of %s depends on earlier generate() calls on the same encoder" % hist[-1], case)
                return
            if step % 4 == 1:
                try:
                    sibling.generate(impl)  # a sibling encoder with the derived context works in between
                except Exception:
                    pass
            returned.append((bi, out))
            for pbi, pout in returned:
                if snap(pout) != fresh[pbi]:
                    run.violation("a list returned by an earlier generate() call changed after a later call", case)
                    return
            run.count("history_steps")
        run.count("histories")


def run(run):
    problems = RL.self_check()
    if problems:
        run.inconclusive_because("reference layout fails its self-check: %s" % problems)
        return
    import fcp.encoding as E

    reach = Reach([E]).start()
    n = run.pick(500, 12000)
    for i in range(n):
        if run.mine(i):
            one_schema(run, i)
    reach.stop()
    run.extra["reach"] = {k: v for k, v in reach.summary(30).items() if k.startswith("PackedEncoder")}


def conclude(run):
    run.require("api_built_trees", "layouts_checked", "option_leaves_checked", "history_steps", "histories", "history_failing_calls")


def replay(run, case):
    decls = case.get("description")
    if not decls:
        run.inconclusive_because("case carries no description")
        return
    for k in range(20):
        check_decls(run, decls, run.rng("replay", k))
        if run.nviol:
            return
