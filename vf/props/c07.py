"""C07 - parsing is the inverse of printing."""

import os
import shutil

from .. import env
from ..gen import schema as S, descr
from ..mon.reach import Reach
from . import parse_common as PC

PROPERTY = "C07"
LEVEL = "exploration"
RULE = (
    "Random schema descriptions using every grammar production (structs with nested types to depth "
    "4, unit/range parameters in both orders, enums, bindings with/without rename, 'as' present or "
    "omitted, extension fields and signal blocks with int/negative/float/string/identifier/array/"
    "nested-array values, services, devices; FCP keywords used as names) are printed to FCP text in a "
    "plain layout and in k seeded formatting variants (comments of both kinds, tabs/newlines, optional "
    "'|' and separators) and parsed by get_fcp_from_string (and get_fcp on a file for a sample, also with "
    "part of the declarations moved into 'mod' imports).  "
    "Oracle: to_dict() == expected tree computed from the description (source order, one default "
    "binding per struct); all variants of one description must agree.  distinct = distinct grammar-"
    "feature sets x variant kind; a run that did not exercise every production is inconclusive."
)
ASSUMPTIONS = [
    "string literal bodies are raw text (backslash escapes such as \\\" are kept verbatim by the tree); no raw newline or unescaped quote; \\r is not used as whitespace",
    "duplicate keys inside one binding/device/signal block are not generated",
    "user type names are unique and are not builtin type names",
]
K4 = "grammar-builtin-prefix-typename"


def shards(tier):
    return 8 if tier == "quick" else 16


def compare(run, decls, text, variant, via="string", path=None):
    case = {"description": decls, "text": text, "variant": variant, "via": via}
    try:
        res, lg = PC.parse_string(text) if via == "string" else PC.parse_file(path)
    except BaseException as e:
        return ("exc", "%s: %s" % (type(e).__name__, str(e)[:300]), case)
    run.count("parses")
    if res.is_err():
        return ("err", repr(res.err())[:400], case)
    got = res.unwrap().to_dict()
    exp = S.expected_dict(decls)
    if got != exp:
        case["got"] = got
        case["expected"] = exp
        for key in exp:
            if got.get(key) != exp[key]:
                return ("diff", "tree differs from the printed description in '%s'" % key, case)
        return ("diff", "tree differs from the printed description", case)
    run.count("trees_equal")
    return None


def check_description(run, i, decls, nvariants, tmpdir=None):
    feats = PC.features(decls)
    for f in feats:
        run.count("feature/" + f)
    fsig = ",".join(sorted(feats))
    for v in range(nvariants + 1):
        style = S.Style() if v == 0 else S.Style(run.rng("style", i, v))
        text = S.print_schema(decls, style)
        bad = compare(run, decls, text, v)
        if bad:
            run.violation("%s (%s variant %d)" % (bad[1], "plain" if v == 0 else "formatted", v), bad[2])
            return
        run.case(sig="%s|%s" % (fsig, "plain" if v == 0 else "fmt"))
        if len(run.samples) < 2 and v == 1 and len(text) < 900:
            run.sample({"text": text, "expected_tree_keys": {k: len(x) if isinstance(x, list) else x for k, x in S.expected_dict(decls).items()}})
    if tmpdir is not None:
        path = os.path.join(tmpdir, "main.fcp")
        text = S.print_schema(decls, S.Style(run.rng("style", i, "file")))
        # a third of the files is saved with CRLF, a few with lone-CR line endings (a schema edited on
        # another platform): files are text, the line-ending convention must not change the tree
        nl = {0: "\n", 1: "\r\n", 2: "\n", 3: "\n", 4: "\r\n", 5: "\n"}[(i // 10) % 6]
        with open(path, "w", newline="") as f:
            f.write(text.replace("\n", nl))
        if nl != "\n":
            run.count("crlf_files")
        bad = compare(run, decls, text, "file" + ("-crlf" if nl != "\n" else ""), via="file", path=path)
        if bad:
            run.violation("%s (get_fcp on a file)" % bad[1], bad[2])
            return
        run.case(sig="%s|file" % fsig)
        run.count("file_parses")
        # the remaining production, mod_expr: a dependency-closed part of the declarations moves into
        # imported files; the tree must hold the same declarations (compared per kind as multisets,
        # C20 explores the import mechanism in depth)
        from . import c20

        counter = [0]
        tree = c20.build_tree(run.rng("modtree", i), decls, "main.fcp", 0, counter)
        if counter[0]:
            root = os.path.join(tmpdir, "mod%d" % i)
            os.makedirs(root)
            files = c20.write_tree(root, tree, lambda f: S.Style(run.rng("modstyle", i, f.relpath)))
            case = {"description": decls, "files": files, "via": "file with mod imports"}
            try:
                res, lg = PC.parse_file(os.path.join(root, "main.fcp"))
            except BaseException as e:
                run.violation("%s: %s (schema with mod imports)" % (type(e).__name__, str(e)[:200]), case)
                return
            finally:
                shutil.rmtree(root, ignore_errors=True)
            if res.is_err():
                run.violation("schema with mod imports rejected: %s" % repr(res.err())[:300], case)
                return
            got = res.unwrap().to_dict()
            exp = S.expected_dict(decls)
            for kind in ("structs", "enums", "impls", "services", "devices"):
                if c20.multiset(got.get(kind, [])) != c20.multiset(exp[kind]):
                    case["got"] = got.get(kind)
                    run.violation("tree of a schema with mod imports differs from the declarations in '%s'" % kind, case)
                    return
            run.count("feature/decl:mod")
            run.count("mod_parses")
            run.case(sig="%s|mod" % fsig)


def probe_k4(run):
    """Former known finding K4 (repaired in /repo): user types named with a builtin-type prefix.
    The probe stays: should the defect come back, the classification key is no longer listed in
    known_findings.txt and is therefore reported as a violation."""
    probes = [PC.k4_witness()]
    r = run.rng("k4")
    for pre in ["u8x", "str_t", "f32vec", "i16le", "structure", "f64_", "u1a", "string"]:
        probes.append([
            {"kind": "enum", "name": pre, "values": [("A", 0), ("B", r.randint(1, 9))]},
            {"kind": "struct", "name": "Holder", "fields": [{"name": "f", "id": 0, "type": r.choice([("enum", pre), ("arr", ("enum", pre), 2), ("opt", ("enum", pre))])}]},
        ])
    for decls in probes:
        text = S.print_schema(decls)
        bad = compare(run, decls, text, 0)
        run.count("k4_probes")
        if bad is None:
            continue
        if bad[0] == "err":
            run.known_finding(K4, "a user type whose name starts with a builtin type token is rejected: %s" % bad[1][:120], {"text": text})
        else:
            run.violation("K4 probe misbehaves differently from the recorded finding: %s" % bad[1], bad[2])


def run(run):
    import fcp.parser as P

    reach = Reach([P]).start()
    n = run.pick(700, 20000)
    nvar = run.pick(2, 4)
    tmpdir = env.scratch("c07")
    try:
        for i in range(n):
            if not run.mine(i):
                continue
            decls = descr.gen_description(run.rng("descr", i))
            check_description(run, i, decls, nvar, tmpdir if i % 10 == 0 else None)
        if run.shard == 0:
            probe_k4(run)
    finally:
        shutil.rmtree(tmpdir, ignore_errors=True)
        reach.stop()
    run.extra["reach"] = {k: v for k, v in reach.summary(80).items() if k.startswith("FcpV2Transformer.")}


def conclude(run):
    run.require("parses", "trees_equal", "file_parses", "mod_parses", "crlf_files")
    missing = [f for f in sorted(PC.REQUIRED_FEATURES) if run.counters.get("feature/" + f, 0) == 0]
    if missing:
        run.inconclusive_because("grammar features never generated: %s" % missing)
    feats = {k[8:]: v for k, v in run.counters.items() if k.startswith("feature/")}
    for k in [k for k in run.counters if k.startswith("feature/")]:
        del run.counters[k]
    run.extra["grammar_features_exercised"] = feats


def replay(run, case):
    if "description" in case:
        def fix(x):
            return x
        bad = compare(run, case["description"], case["text"], case.get("variant"))
        if bad:
            run.violation(bad[1], bad[2])
    else:
        probe_k4(run)
