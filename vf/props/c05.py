"""C05 - the generated DBC describes exactly the packed layout of every CAN binding."""

import math

from .. import env
from ..gen import schema as S, cansch, values as V
from ..ref import canpack, dbcread, layout as RL
from . import codec_common as CC
from . import c04

PROPERTY = "C05"
LEVEL = "exploration"
RULE = (
    "CAN schemas with 1-6 bindings over 1-3 buses (and bindings without a bus), every message <= 64 "
    "bits, mixing widths 1..64, signed, enums, f32/f64, nested structs, arrays (unrolled), big-endian "
    "on byte-aligned 8/16/32/64-bit leaves, multiplexed signals, units, renamed bindings, ids "
    "0..2047.  fcp_dbc.Generator().generate() output is read by two independent readers (cantools "
    "and vf/ref/dbcread.py) which must agree with each other, then compared with the layout the real "
    "PackedEncoder returns for the binding: per bus exactly the bound messages; id, name, length = "
    "ceil(bits/8); per leaf start/width/sign/float/byte order/unit/mux.  End to end: frames packed "
    "from boundary/random leaf values by vf/ref/canpack.py decode through cantools+DBC to the values, "
    "and cantools encodes the values to the same bytes.  distinct = (message shape signature, "
    "feature flags)."
)
ASSUMPTIONS = [
    "C05 is relative to the layout returned by the real packed encoder (C04 judges the layout itself)",
    "big-endian only on byte-aligned whole-byte leaves; field names are unique across a schema so a signal block governs one leaf",
    "float signals hold non-NaN values in the end-to-end part (NaN != NaN)",
    "cantools (a dependency of the plug-in itself) is one of the two DBC readers",
]


def shards(tier):
    return 8 if tier == "quick" else 16


def dbc_name(n):
    return n.replace("::", "_")


def gen_leaf_value(r, t, sch, mode):
    if t[0] in ("f32", "f64"):
        while True:
            v = V.gen_value(r, sch, t, mode, {"finite": False})
            if v == v:
                return v
    return V.gen_value(r, sch, t, mode)


def check_schema(run, decls, r, tag):
    import cantools
    import fcp_dbc

    text = S.print_schema(decls)
    case = {"schema": text, "description": decls}
    res = CC.parse(text)
    if res.is_err():
        run.violation("front end rejected a well-formed CAN schema: %r" % (res.err(),), case)
        return
    fcp = res.unwrap()
    sch = S.Sch(decls)
    try:
        out = fcp_dbc.Generator().generate(fcp, {"output": "out"})
    except Exception as e:
        run.violation("DBC generation raised %s: %s on a schema whose messages all fit" % (type(e).__name__, e), case)
        return
    run.count("generations")
    files = {}
    for f in out:
        if f["bus"] in files:
            run.violation("two files for bus %s" % f["bus"], case)
            return
        files[f["bus"]] = str(f["contents"])
    can = sch.impls("can")
    by_bus = {}
    for d in can:
        bus = S.dval(S.impl_fields(d).get("bus", ("s", "default")))
        by_bus.setdefault(bus, []).append(d)
    if set(files) != set(by_bus):
        run.violation("bus files %s, bindings are on buses %s" % (sorted(files), sorted(by_bus)), case)
        return
    enc = c04.encoder(fcp, True)
    for bus, contents in files.items():
        case_b = dict(case, bus=bus, dbc=contents)
        try:
            mine = dbcread.read(contents)
            db = cantools.database.load_string(contents, "dbc")
        except Exception as e:
            run.violation("generated DBC for bus %s cannot be read: %s: %s" % (bus, type(e).__name__, e), case_b)
            return
        # the two readers must agree with each other before either judges
        ct = {m.frame_id: m for m in db.messages}
        want_ids = {S.dval(S.impl_fields(d)["id"]): d for d in by_bus[bus]}
        if set(ct) != set(mine):
            # cantools strips the extended-frame flag (bit 31 of the BO_ number); the plain reader does not
            if set(mine) != set(want_ids):
                run.violation("bus %s: the BO_ numbers in the file are %s, bindings on that bus have frame ids %s (cantools reads %s)" % (bus, sorted(mine), sorted(want_ids), sorted(ct)), case_b)
                return
            run.inconclusive_because("DBC readers disagree on the message set")
            return
        if set(mine) != set(want_ids):
            run.violation("bus %s lists frame ids %s, bindings on that bus have %s" % (bus, sorted(mine), sorted(want_ids)), case_b)
            return
        for fid, d in want_ids.items():
            impl = [x for x in fcp.impls if x.name == S.impl_name(d) and x.protocol == "can"][0]
            lay = enc.generate(impl)
            bits = max(v.bitstart + v.bitlength for v in lay)
            m = mine[fid]
            cm = ct[fid]
            case_m = dict(case_b, frame_id=fid, binding=S.impl_name(d))
            if m["name"] != S.impl_name(d) or cm.name != m["name"]:
                run.violation("message %d is named %s, the binding is %s" % (fid, m["name"], S.impl_name(d)), case_m)
                return
            if m["length"] != (bits + 7) // 8 or cm.length != m["length"]:
                run.violation("message %s has length %d, ceil(%d bits / 8) = %d" % (m["name"], m["length"], bits, (bits + 7) // 8), case_m)
                return
            if len(m["signals"]) != len(lay):
                run.violation("message %s has %d signals, the layout has %d leaves" % (m["name"], len(m["signals"]), len(lay)), case_m)
                return
            try:
                declared_units = RL.leaf_units(sch, d["type"])
            except Exception:
                declared_units = {}
            # leaves as the property's statement defines them (reference model, where it covers the struct):
            # the DBC must have a signal of that name and width (and, little-endian, at that position) even
            # when the packed encoder the generator uses names or places a leaf differently (C04 reports that)
            try:
                ref_leaves = RL.layout(sch, d["type"], True)
            except Exception:
                ref_leaves = None
            for rn, rp, rw, _rt, _rf in ref_leaves or []:
                sgr = m["signals"].get(dbc_name(rn))
                if sgr is None:
                    run.violation("message %s has no signal for layout leaf %s (signals: %s)" % (m["name"], rn, sorted(m["signals"])[:12]), case_m)
                    return
                if sgr["length"] != rw or (sgr["little"] and sgr["start"] != rp):
                    run.violation("signal %s of message %s is at %d|%d, the layout leaf is at %d|%d" % (rn, m["name"], sgr["start"], sgr["length"], rp, rw), case_m)
                    return
            if ref_leaves is not None:
                run.count("bindings_checked_against_the_reference_layout")
            mux_names = {v.extended_data.get("mux_signal") for v in lay if v.extended_data.get("mux_signal") is not None}
            leaves = []
            for v in lay:
                nm = dbc_name(v.name)
                sg = m["signals"].get(nm)
                if sg is None:
                    run.violation("layout leaf %s has no signal in message %s" % (v.name, m["name"]), case_m)
                    return
                csg = cm.get_signal_by_name(nm)
                big = v.endianess == "big"
                want_start = v.bitstart + 7 if big else v.bitstart
                tname = getattr(v.type, "name", "")
                want_float = 1 if tname == "f32" else (2 if tname == "f64" else 0)
                want_signed = tname.startswith("i") and type(v.type).__name__ == "SignedType"
                problems = []
                if sg["start"] != want_start or csg.start != sg["start"]:
                    problems.append("start %d (expected %d)" % (sg["start"], want_start))
                if sg["length"] != v.bitlength or csg.length != sg["length"]:
                    problems.append("length %d (expected %d)" % (sg["length"], v.bitlength))
                if sg["little"] == big or (csg.byte_order == "big_endian") != big:
                    problems.append("byte order %s (expected %s)" % ("little" if sg["little"] else "big", v.endianess))
                if sg["signed"] != want_signed or bool(csg.is_signed) != want_signed:
                    problems.append("signed=%s (expected %s)" % (sg["signed"], want_signed))
                if sg["float"] != want_float or bool(csg.is_float) != bool(want_float):
                    problems.append("value type %d (expected %d: 0 int, 1 f32, 2 f64)" % (sg["float"], want_float))
                if (sg["unit"] or None) != (v.unit or None) or (csg.unit or None) != (v.unit or None):
                    problems.append("unit %r (expected %r)" % (sg["unit"], v.unit))
                elif v.name in declared_units and (declared_units[v.name] or None) != (sg["unit"] or None):
                    problems.append("unit %r (the schema declares %r)" % (sg["unit"], declared_units[v.name]))
                if sg["scale"] != 1 or sg["offset"] != 0:
                    problems.append("scale/offset %s/%s" % (sg["scale"], sg["offset"]))
                mc = v.extended_data.get("mux_count")
                ms = v.extended_data.get("mux_signal")
                want_ids_mux = list(range(mc)) if mc is not None else None
                is_mux = v.name in mux_names
                if bool(csg.is_multiplexer) != is_mux or (sg["mux"] or "").startswith("M") != is_mux and not ((sg["mux"] or "").endswith("M") == is_mux):
                    problems.append("multiplexer flag %r (expected %s)" % (sg["mux"], is_mux))
                if ms is not None:
                    if (csg.multiplexer_signal or None) != ms or sorted(csg.multiplexer_ids or []) != want_ids_mux:
                        problems.append("mux %r ids %r (expected %r ids %r)" % (csg.multiplexer_signal, csg.multiplexer_ids, ms, want_ids_mux))
                    if sg["mux_ids"] is not None and (sg["mux_signal"] != ms or sg["mux_ids"] != want_ids_mux):
                        problems.append("SG_MUL_VAL_ %r %r" % (sg["mux_signal"], sg["mux_ids"]))
                elif csg.multiplexer_signal is not None or csg.multiplexer_ids:
                    problems.append("unexpected multiplexing %r %r" % (csg.multiplexer_signal, csg.multiplexer_ids))
                if problems:
                    case_m["leaf"] = v.name
                    run.violation("signal %s of message %s: %s" % (nm, m["name"], "; ".join(problems)), case_m)
                    return
                run.count("signals_compared")
                leaves.append((nm, v.bitstart, v.bitlength, leaf_type(v.type, sch), big))
            run.count("messages_compared")
            # end to end
            muxed = {dbc_name(v.name): (v.extended_data.get("mux_signal"), v.extended_data.get("mux_count")) for v in lay if v.extended_data.get("mux_signal") is not None}
            nframes = run.pick(6, 20)
            for k in range(nframes):
                mode = ["zero", "min", "max", "asym"][k] if k < 4 else "random"
                vals = {nm: gen_leaf_value(r, t, sch, mode) for nm, _, _, t, _ in leaves}
                for msig in {ms for ms, _ in muxed.values()}:
                    # cantools refuses frames whose multiplexer value selects no signal at all
                    vals[dbc_name(msig)] = vals[dbc_name(msig)] % max(c for ms, c in muxed.values() if ms == msig)

                def present(nm, depth=0):
                    # a multiplexed signal is in the frame iff its selector is, and holds one of its ids (selectors chain)
                    if nm not in muxed or depth > 8:
                        return True
                    msig, cnt = muxed[nm]
                    return present(dbc_name(msig), depth + 1) and vals.get(dbc_name(msig)) in range(cnt)
                data = canpack.pack(leaves, vals, m["length"])
                case_f = dict(case_m, values=vals, frame=data)
                try:
                    dec = db.decode_message(fid, data, decode_choices=False, scaling=False)
                except Exception as e:
                    run.violation("cantools cannot decode a frame of %s with the generated DBC: %s: %s" % (m["name"], type(e).__name__, e), case_f)
                    return
                expect = {}
                for nm in vals:
                    if not present(nm):
                        continue
                    expect[nm] = vals[nm]
                bad = [nm for nm in expect if nm not in dec or not same_num(dec[nm], expect[nm])] + [nm for nm in dec if nm not in expect]
                if bad:
                    case_f["decoded"] = dict(dec)
                    run.violation("frame packed at the layout decodes through the DBC to different values for %s" % bad[:4], case_f)
                    return
                run.count("frames_decoded")
                if not muxed:
                    try:
                        enc_bytes = db.encode_message(fid, vals, scaling=False, strict=False)
                    except Exception as e:
                        run.violation("cantools cannot encode with the generated DBC: %s: %s" % (type(e).__name__, e), case_f)
                        return
                    if bytes(enc_bytes) != data:
                        case_f["cantools_bytes"] = bytes(enc_bytes)
                        run.violation("cantools encodes the values to different bytes than the layout packing", case_f)
                        return
                    run.count("frames_encoded")
            flags = []
            if any(l[4] for l in leaves):
                flags.append("big")
            if muxed:
                flags.append("mux")
                if any(ms in muxed or dbc_name(ms) in muxed for ms, _ in muxed.values()):
                    flags.append("chained-mux")
                    run.count("messages_with_chained_multiplexing")
            if any(l[3][0] in ("f32", "f64") for l in leaves):
                flags.append("float")
            if d["name"]:
                flags.append("renamed")
            from ..gen import shapes

            run.case(sig="%s|%s" % (shapes.shape_sig(sch, d["type"]), ",".join(flags)))
            if len(run.samples) < 3 and len(text) < 1000 and flags:
                run.sample({"schema": text, "bus": bus, "message": m["name"], "dbc_lines": [l for l in contents.split("\r\n") if l.startswith(("BO_", " SG_", "SIG_VALTYPE_", "SG_MUL_VAL_"))], "frame": data, "values": vals})


def leaf_type(ftype, sch):
    n = type(ftype).__name__
    if n == "UnsignedType":
        return ("u", int(ftype.name[1:]))
    if n == "SignedType":
        return ("i", int(ftype.name[1:]))
    if n == "FloatType":
        return ("f32",)
    if n == "DoubleType":
        return ("f64",)
    if n == "EnumType":
        return ("enum", ftype.name)
    raise ValueError(n)


def same_num(a, b):
    if isinstance(a, float) or isinstance(b, float):
        return float(a) == float(b) and math.copysign(1, float(a)) == math.copysign(1, float(b))
    return int(a) == int(b)


def run(run):
    problems = RL.self_check()
    if problems:
        run.inconclusive_because("reference layout self-check failed: %s" % problems)
        return
    n = run.pick(900, 8000)
    for i in range(n):
        if not run.mine(i):
            continue
        r = run.rng("schema", i)
        decls = cansch.gen_can_schema(r, second_bindings=True, bitstart=True, odd_buses=True)
        check_schema(run, decls, r, i)


def conclude(run):
    run.require("generations", "messages_compared", "signals_compared", "frames_decoded", "frames_encoded")


def replay(run, case):
    check_schema(run, case["description"], run.rng("replay"), "replay")
