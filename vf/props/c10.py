"""C10 - code generation is gated by verification: rejected schemas write nothing."""

import copy
import importlib
import os
import shutil
import sys

from .. import env
from ..gen import schema as S, cansch
from ..mon import audit
from . import c09

PROPERTY = "C10"
LEVEL = "fault_enumeration"
RULE = (
    "Faults = which registered check rejects.  For every installed generator (dbc, can_c, cpp, nop) and a probe plug-in of this harness (fcp_vfprobe: returns a file with empty contents, a file three directories down, a print result) "
    "a well-formed CAN schema with nodes of every verifier category (structs, fields, enums, bindings, "
    "signal blocks, devices, services) is driven through GeneratorManager.generate() (a) unchanged "
    "(must succeed and write exactly the files the plug-in's generate() returned, with exactly those "
    "contents), (b) with each general rule violated at a random position, (c) with each plug-in rule "
    "violated (dbc/can_c: unknown struct; dbc: duplicate CAN id; can_c: 65..72 bit message), (d) with "
    "a synthetic always-rejecting check registered in each of the 8 verifier categories, before or "
    "after the general checks, as the first of two same-named checks, registered on the verifier only after its GeneratorManager was constructed, or failing through the Maybe idiom (returns Nothing() instead of Err); (e) with ONE manager, verifier and schema object that is accepted and generated from once and then edited in place into an ill-formed tree.  Output directory states: absent, empty, unrelated files, files with "
    "the very names the generator writes (other text, a CRLF copy of the output, bytes that are not "
    "UTF-8, an identical copy; <stem>.tmp/.bak/.orig siblings of every output), stale .c/.h files.  Monitors: return value must be Err; a "
    "sys.addaudithook event log of every write-open / remove / rename / mkdir / rmdir during the "
    "call (catches write-then-delete and writes outside the directory) and a content-hash snapshot "
    "of the directory before/after.  The `python -m fcp generate` command line is run as a subprocess for an "
    "accepted and a rejected schema per generator.  distinct = (generator, rejection source, directory state)."
)
ASSUMPTIONS = [
    "on success the C plug-in itself removes stale .c/.h files from the directory; deletions on the success path are recorded, not judged",
    "bytecode caching is disabled (sys.dont_write_bytecode) so imports do not show up as writes",
    "the parent of the output directory exists",
]
GENERATORS = ["dbc", "can_c", "cpp", "nop", "vfprobe"]
PROBE_PLUGIN_DIR = os.path.join(os.path.dirname(os.path.dirname(os.path.abspath(__file__))), "plugins")
CATEGORIES = ["struct", "field", "enum", "impl", "signal_block", "type", "device", "uncategorized"]
DIR_STATES = ["absent", "empty", "unrelated", "same-names", "stale-c"]
# states that need the contents the plug-in is going to return (only used on the success path)
CONTENT_STATES = ["same-names-crlf-copy", "same-names-not-utf8", "same-names-identical", "sibling-temp-files", "blocked-by-directory"]


def shards(tier):
    return 8 if tier == "quick" else 16


def base_tree(r):
    """Well-formed tree with nodes of every category that all four generators accept."""
    decls = cansch.gen_can_schema(r, prefix="G", max_bindings=3, flat=True, buses=True, big_endian=False, mux=False, devices=True,
                                  enum_maxes=[1, 2, 3, 5, 7, 200])
    if not any(d["kind"] == "enum" for d in decls):
        decls.insert(0, cansch.mk_enum("GEnX", 3, r))
    structs = [d for d in decls if d["kind"] == "struct"]
    # make sure at least one binding has a signal block
    for d in decls:
        if d["kind"] == "impl" and d["protocol"] == "can":
            st = [s for s in structs if s["name"] == d["type"]][0]
            if not S.impl_signals(d):
                d["items"].append(("signal", st["fields"][0]["name"], [("comment", ("s", "x"))]))
            if "device" not in S.impl_fields(d):
                d["items"].append(("field", "device", ("s", "ecu")))
            if "bus" not in S.impl_fields(d):
                d["items"].append(("field", "bus", ("s", "can0")))
            if r.random() < 0.4:
                # a bus called "chassis/can1" puts its file one level below the output directory
                d["items"] = [it for it in d["items"] if not (it[0] == "field" and it[1] == "bus")] + [("field", "bus", ("s", "chassis/can1"))]
            break
    a, b = structs[0]["name"], structs[-1]["name"]
    decls.append({"kind": "service", "name": "GSvc", "id": 1, "methods": [{"name": "Get", "id": 0, "input": a, "output": b}]})
    decls.append({"kind": "device", "name": "gdev", "fields": [("services", [("id", "GSvc")]), ("node", 3)]})
    return c09.tree_of(decls), decls


def inject_plugin(r, t, what):
    t = copy.deepcopy(t)
    can = [i for i in t["impls"] if i["protocol"] == "can"]
    if what == "unknown-struct":
        t["impls"].append({"name": "Ghost", "protocol": "can", "type": "NoSuchStruct", "fields": {"id": 2047, "bus": "can0", "device": "ecu"}, "signals": []})
    elif what == "duplicate-can-id":
        st = t["structs"][-1]
        t["impls"].append({"name": "Twin", "protocol": "can", "type": st["name"], "fields": {"id": can[0]["fields"]["id"], "bus": can[0]["fields"].get("bus", "can0"), "device": "ecu"}, "signals": []})
    elif what == "oversize":
        w = r.randint(65, 72)
        t["structs"].append({"name": "Wide", "fields": [{"name": "wa", "id": 0, "type": ("u", 40)}, {"name": "wb", "id": 1, "type": ("i", w - 40)}]})
        t["impls"].append({"name": "Wide", "protocol": "default", "type": "Wide", "fields": {}, "signals": []})
        t["impls"].append({"name": "Wide", "protocol": "can", "type": "Wide", "fields": {"id": 2046, "bus": "can0", "device": "ecu"}, "signals": []})
    return t


def expected_files(gen_name, t, root):
    """{relative path: contents} the plug-in returns for this tree (dry run into a scratch directory)."""
    mod = importlib.import_module("fcp_" + gen_name)
    ref = os.path.join(root, "dry")
    out = {}
    for f in mod.Generator().generate(c09.build(t), {"output": ref, "templates": {}, "skels": {}}):
        if f.get("type") == "file":
            out[os.path.relpath(str(f["path"]), ref)] = str(f["contents"])
    shutil.rmtree(ref, ignore_errors=True)
    return out


def c09_ok():
    from fcp.result import Ok

    return Ok(())


def prepare_dir(root, state, names, contents=None):
    out = os.path.join(root, "out")
    if os.path.exists(out):
        shutil.rmtree(out)
    if state == "absent":
        return out
    os.makedirs(out)
    if state == "sibling-temp-files":
        # the user's own files that merely look like temporaries of the outputs: <stem>.tmp/.bak/.orig/~
        for rel in (contents or {}):
            base = os.path.join(out, rel)
            os.makedirs(os.path.dirname(base), exist_ok=True)
            stem = os.path.splitext(base)[0]
            for sib in (stem + ".tmp", stem + ".bak", base + ".orig", base + "~", base + ".tmp"):
                with open(sib, "w") as f:
                    f.write("user file %s\n" % os.path.basename(sib))
        return out
    if state == "blocked-by-directory":
        # where the first output file should go there is a DIRECTORY of that name: the file cannot be written
        for rel in sorted(contents or {})[:1]:
            os.makedirs(os.path.join(out, rel))
        return out
    if state in CONTENT_STATES:
        for rel, text in (contents or {}).items():
            p = os.path.join(out, rel)
            os.makedirs(os.path.dirname(p), exist_ok=True)
            if state == "same-names-crlf-copy":
                data = text.replace("\r\n", "\n").replace("\n", "\r\n").encode()
            elif state == "same-names-not-utf8":
                data = b"\xff\xfe\x00 not text \x80\x81"
            else:
                data = text.encode()
            with open(p, "wb") as f:
                f.write(data)
        return out
    if state == "unrelated":
        open(os.path.join(out, "README.txt"), "w").write("keep me\n")
        os.makedirs(os.path.join(out, "sub"))
        open(os.path.join(out, "sub", "data.bin"), "wb").write(b"\x00\x01\x02")
    elif state == "same-names":
        for n in names or ["fcp.h", "can0.fcp", "ecu_can.c"]:
            open(os.path.join(out, n), "w").write("OLD CONTENT of %s\n" % n)
    elif state == "stale-c":
        open(os.path.join(out, "old_can.c"), "w").write("/* stale */\n")
        open(os.path.join(out, "old_can.h"), "w").write("/* stale */\n")
        open(os.path.join(out, "notes.md"), "w").write("notes\n")
    return out


class Capture:
    """Wraps the plug-in's Generator.generate to capture the returned list."""

    def __init__(self, gen_name):
        self.mod = importlib.import_module("fcp_" + gen_name)
        self.cls = self.mod.Generator
        self.orig = self.cls.generate
        self.returned = None
        self.calls = 0
        cap = self

        def wrapper(self_, fcp, ctx):
            cap.calls += 1
            out = cap.orig(self_, fcp, ctx)
            out = list(out)
            cap.returned = out
            return out

        self.cls.generate = wrapper

    def restore(self):
        self.cls.generate = self.orig


PATH_STYLES = ["absolute", "absolute", "relative", "absolute", "dot-dot", "absolute", "symlinked-parent", "trailing-slash", "relative-dot"]


def drive(run, gen_name, t, expect_reject, source, dir_state, root, probe=None, known_names=None, before=None, path_style=None):
    """How the caller SPELLS the output directory says nothing about what is written there: the same directory is
    given as an absolute path, relative to the working directory, through '..', through a symbolic link."""
    if path_style is None:
        path_style = PATH_STYLES[run.counters.get("drive_calls", 0) % len(PATH_STYLES)]
    run.count("drive_calls")
    back = os.getcwd()
    link = os.path.join(root, "lnk")
    try:
        if path_style.startswith("relative"):
            os.chdir(root)
        if path_style == "symlinked-parent" and not os.path.islink(link):
            os.symlink(root, link)
        return _drive(run, gen_name, t, expect_reject, source, dir_state, root, probe, known_names, before, path_style)
    finally:
        os.chdir(back)
        if os.path.islink(link):
            os.unlink(link)


def spelled(out_dir, root, style):
    if style == "relative":
        return "out"
    if style == "relative-dot":
        return os.path.join(".", "neighbour", "..", "out")
    if style == "dot-dot":
        return os.path.join(root, "neighbour", "..", "out")
    if style == "symlinked-parent":
        return os.path.join(root, "lnk", "out")
    if style == "trailing-slash":
        return out_dir + os.sep
    return out_dir


def _drive(run, gen_name, t, expect_reject, source, dir_state, root, probe, known_names, before, path_style):
    from fcp.codegen import GeneratorManager
    from fcp.verifier import make_general_verifier

    case = {"generator": gen_name, "rejection_source": source, "dir_state": dir_state, "tree": t, "path_style": path_style}
    try:
        fcp = c09.build(t)
    except Exception as e:
        run.inconclusive_because("could not build tree: %s" % e)
        return
    verifier = make_general_verifier()
    mgr = None
    if probe is not None and probe[1] == "late":
        # the manager exists before the rejecting check is registered on its verifier
        mgr = GeneratorManager(verifier)
    if before is not None and len(before) == 3:
        # history: ONE long-lived manager that first gets ANOTHER schema, which a check rejects; whatever the
        # verifier keeps from that failed run must not reach the judged call
        t_bad, first_gen, _mode = before
        case["rejected_before"] = t_bad
        case["first_generator"] = first_gen
        mgr = GeneratorManager(verifier)
        pre_dir = os.path.join(root, "pre")
        shutil.rmtree(pre_dir, ignore_errors=True)
        try:
            mgr.generate(first_gen, None, None, c09.build(t_bad), pre_dir)
        except Exception:
            pass
        shutil.rmtree(pre_dir, ignore_errors=True)
        run.count("judged_after_a_rejected_schema_on_the_same_manager")
        before = None
    if before is not None:
        # history: ONE manager, verifier and schema object; the schema is accepted and generated from
        # once (generator before[1]), then edited in place into the ill-formed tree t
        t_before, first_gen = before
        case["tree_before"] = t_before
        case["first_generator"] = first_gen
        good = c09.build(t_before)
        mgr = GeneratorManager(verifier)
        pre_dir = os.path.join(root, "pre")
        shutil.rmtree(pre_dir, ignore_errors=True)
        try:
            pre = mgr.generate(first_gen, None, None, good, pre_dir)
        except Exception as e:
            pre = e
        shutil.rmtree(pre_dir, ignore_errors=True)
        if type(pre).__name__ != "Ok":
            run.violation("generate(%s) failed on a schema every registered check accepts: %r" % (first_gen, pre), case)
            return
        for attr in ("structs", "enums", "impls", "services", "devices"):
            setattr(good, attr, getattr(fcp, attr))
        fcp = good
        run.count("edited_after_acceptance")
    called = {"n": 0}
    if probe is not None:
        cat, position = probe
        from fcp.error import error

        def reject(self, fcp_, node):
            called["n"] += 1
            return error("synthetic rejection in category %s" % cat)

        if position == "nothing":
            # a check that fails through the project's Maybe idiom instead of returning Err: it returns
            # Nothing(), on which every caller's .attempt() gives up
            from fcp.maybe import Nothing

            def reject(self, fcp_, node):  # noqa: F811
                called["n"] += 1
                return Nothing()

        if position == "attempt":
            # a check without a @catch of its own that rejects by letting a nested .attempt() escape (the project's
            # early-return idiom): the rejection travels as the idiom's exception up to whoever catches it
            def reject(self, fcp_, node):  # noqa: F811
                called["n"] += 1
                error("synthetic rejection through .attempt() in category %s" % cat).attempt()
                return c09_ok()

        if position == "pair":
            # two different checks that happen to share their __name__ (closures of one helper): the
            # first rejects, the second accepts - both are registered checks and both must run
            def make(verdict):
                def named_check(self, fcp_, node):
                    if verdict is None:
                        return c09_ok()
                    called["n"] += 1
                    return error(verdict)

                return named_check

            verifier.register(make("synthetic rejection (first of two same-named checks) in %s" % cat), None if cat == "uncategorized" else cat)
            verifier.register(make(None), None if cat == "uncategorized" else cat)
        else:
            try:
                verifier.register(reject, None if cat == "uncategorized" else cat)
            except ValueError:
                # a category the verifier does not know is refused at registration: nothing was registered,
                # nothing to judge
                run.count("registrations_refused/" + cat)
                return
        if position == "first":
            lst = getattr(verifier, "checks", {}).get(cat)
            if isinstance(lst, list) and len(lst) > 1:
                lst.insert(0, lst.pop())
    contents = None
    if dir_state in CONTENT_STATES:
        try:
            contents = expected_files(gen_name, t, root)
        except Exception as e:
            run.violation("the plug-in's generate() raised %s: %s on a schema every check accepts" % (type(e).__name__, e), case)
            return
    out_dir = prepare_dir(root, dir_state, known_names, contents)
    arg_dir = spelled(out_dir, root, path_style)
    case["output_directory_as_given"] = arg_dir
    run.count("path_style/" + path_style)
    before = audit.snapshot(out_dir)
    outside_before = audit.snapshot(os.path.join(root, "neighbour"))
    cap = Capture(gen_name)
    raised = None
    result = None
    try:
        with audit.Recorder() as rec:
            try:
                result = (mgr or GeneratorManager(verifier)).generate(gen_name, None, None, fcp, arg_dir)
            except SystemExit:
                run.inconclusive_because("generator %s is not installed" % gen_name)
                return
            except Exception as e:
                raised = e
    finally:
        cap.restore()
    run.count("generate_calls")
    after = audit.snapshot(out_dir)
    muts = [e for e in rec.mutations() if e[1] and "__pycache__" not in e[1] and not e[1].endswith(".pyc")]
    case["events"] = muts[:20]
    if expect_reject:
        if probe is not None and called["n"] == 0:
            if raised is None and type(result).__name__ == "Ok":
                run.violation("generation went ahead without ever running the rejecting check registered in category '%s' (the schema has such nodes)" % probe[0], case)
                return
            run.count("rejected_by_another_check_first")
        is_err = raised is None and type(result).__name__ == "Err"
        if probe is not None and probe[1] == "nothing" and raised is None and type(result).__name__ == "Nothing":
            is_err = True  # the failure travels as Nothing() all the way: still "not Ok", i.e. an error is reported
        if not is_err:
            if raised is not None and probe is None and source.startswith("plugin"):
                # a plug-in check that raises instead of returning Err still reports an error
                run.count("rejections_by_exception")
            else:
                run.violation("generate() returned %r%s although a registered check rejects the schema (%s)" % (result, " / raised %r" % raised if raised else "", source), case)
                return
        if cap.calls:
            run.violation("the plug-in's generate() ran although a registered check rejects the schema (%s)" % source, case)
            return
        if muts:
            run.violation("file-system mutation during a rejected generation (%s): %s" % (source, muts[:3]), case)
            return
        if after != before:
            run.violation("output directory changed by a rejected generation (%s)" % source, case)
            return
        run.count("rejections_wrote_nothing")
    else:
        if dir_state == "blocked-by-directory" and (raised is not None or type(result).__name__ != "Ok"):
            # an output that cannot be written is reported (exception or error value): fine.  Returning Ok
            # falls through to the comparison below, which finds the file missing.
            run.count("unwritable_outputs_reported")
            run.case(sig="%s|%s|%s" % (gen_name, source, dir_state))
            return
        if raised is not None or type(result).__name__ != "Ok":
            run.violation("generate() failed on a schema every registered check accepts: %r %r" % (result, raised), case)
            return
        if cap.returned is None:
            run.violation("generate() returned Ok without running the plug-in", case)
            return
        want = {}
        for f in cap.returned:
            if f.get("type") == "file":
                want[os.path.normpath(os.path.relpath(os.path.realpath(str(f["path"])), os.path.realpath(out_dir)))] = str(f["contents"])
        case["returned_files"] = sorted(want)
        after_files = {k: v for k, v in (after or {}).items() if v[0] == "file"}
        before_files = {k: v for k, v in (before or {}).items() if v[0] == "file"}
        for rel, contents in want.items():
            p = os.path.join(out_dir, rel)
            if not os.path.isfile(p):
                run.violation("returned file %s was not written" % rel, case)
                return
            if open(p, newline="").read() != contents:
                run.violation("written file %s differs from the contents the plug-in returned" % rel, case)
                return
        for rel, meta in after_files.items():
            if rel in want:
                continue
            if rel not in before_files:
                run.violation("file %s was created but is not among the files the plug-in returned" % rel, case)
                return
            if before_files[rel][:3] != meta[:3] or before_files[rel][3] != meta[3]:
                run.violation("pre-existing file %s was modified but is not among the returned files" % rel, case)
                return
        removed = [rel for rel in before_files if rel not in after_files]
        if removed:
            if gen_name == "can_c" and all(x.endswith((".c", ".h")) for x in removed):
                run.count("success_path_deletions_recorded", len(removed))
            else:
                run.violation("pre-existing files %s were deleted by a successful generation" % removed, case)
                return
        for kind, p, p2 in muts:
            ap = os.path.realpath(p)
            if not (ap == os.path.realpath(out_dir) or ap.startswith(os.path.realpath(out_dir) + os.sep)):
                run.violation("successful generation touched %s outside the output directory (%s)" % (p, kind), case)
                return
        run.count("successes_wrote_exactly_returned")
        run.count("files_compared", len(want))
    if audit.snapshot(os.path.join(root, "neighbour")) != outside_before:
        run.violation("a directory next to the output directory was modified", case)
        return
    run.case(sig="%s|%s|%s" % (gen_name, source, dir_state))
    if len(run.samples) < 4 and (expect_reject and dir_state == "same-names" or not expect_reject and dir_state == "unrelated"):
        run.sample({"generator": gen_name, "rejection_source": source, "dir_state": dir_state, "result": repr(result)[:120], "fs_events": muts[:6], "returned_files": case.get("returned_files")})


def cli_cases(run, root):
    """The `fcp generate <generator> <schema> <output>` command line itself: a rejected schema must
    print an error and leave the directory untouched, an accepted one must write what the plug-in
    returns (compared with an in-process run of the plug-in on the same file)."""
    import subprocess

    r = run.rng("cli")
    t, decls = base_tree(r)
    good = S.print_schema(decls)
    st = [d for d in decls if d["kind"] == "struct"][0]
    dup = good + "\n" + S.print_schema([st]).split("\n", 1)[1]
    for gen_name in ("dbc", "cpp", "can_c"):
        for label, text, reject in (("accepted", good, False), ("duplicate-type", dup, True)):
            d = os.path.join(root, "cli_%s_%s" % (gen_name, label))
            os.makedirs(d)
            src = os.path.join(d, "schema.fcp")
            open(src, "w").write(text)
            out_dir = os.path.join(d, "out")
            os.makedirs(out_dir)
            open(os.path.join(out_dir, "keep.txt"), "w").write("keep\n")
            before = audit.snapshot(out_dir)
            p = subprocess.run([sys.executable, "-m", "fcp", "generate", gen_name, src, out_dir], cwd=d, env=env.child_env({"PYTHONDONTWRITEBYTECODE": "1"}), capture_output=True, text=True, timeout=300)
            after = audit.snapshot(out_dir)
            case = {"generator": gen_name, "schema": text, "command_line": "fcp generate %s schema.fcp out" % gen_name, "stdout": p.stdout[-600:], "stderr": p.stderr[-600:]}
            run.count("cli_runs")
            if reject:
                if before != after:
                    run.violation("`fcp generate %s` changed the output directory for a schema the verifier rejects" % gen_name, case)
                    return
                if "rror" not in p.stdout + p.stderr:
                    run.violation("`fcp generate %s` reported no error for a schema the verifier rejects" % gen_name, case)
                    return
                run.case(sig="cli|%s|rejected" % gen_name)
            else:
                import importlib

                from fcp.parser import get_fcp

                mod = importlib.import_module("fcp_" + gen_name)
                ref_dir = os.path.join(d, "ref")
                want = {}
                for f in mod.Generator().generate(get_fcp(src).unwrap(), {"output": ref_dir, "templates": {}, "skels": {}}):
                    if f.get("type") == "file":
                        want[os.path.relpath(str(f["path"]), ref_dir)] = str(f["contents"])
                got = {k: v for k, v in (after or {}).items() if v[0] == "file" and k != "keep.txt"}
                if sorted(got) != sorted(os.path.normpath(k) for k in want):
                    run.violation("`fcp generate %s` wrote files %s, the plug-in returns %s" % (gen_name, sorted(got), sorted(want)), case)
                    return
                import re

                stamp = re.compile(r"^// Generated using fcp .*$", re.M)
                for rel, contents in want.items():
                    disk = open(os.path.join(out_dir, rel), newline="").read()
                    if stamp.sub("", disk) != stamp.sub("", contents):
                        run.violation("`fcp generate %s` wrote %s with contents that differ from what the plug-in returns" % (gen_name, rel), case)
                        return
                if (after or {}).get("keep.txt", (None,))[:3] != (before or {}).get("keep.txt", (None,))[:3]:
                    run.violation("`fcp generate %s` modified an unrelated file" % gen_name, case)
                    return
                run.case(sig="cli|%s|accepted" % gen_name)
            shutil.rmtree(d, ignore_errors=True)


def run(run):
    sys.dont_write_bytecode = True
    if PROBE_PLUGIN_DIR not in sys.path:
        sys.path.append(PROBE_PLUGIN_DIR)  # fcp_vfprobe: results the bundled generators do not produce
    root = env.scratch("c10")
    os.makedirs(os.path.join(root, "neighbour"))
    open(os.path.join(root, "neighbour", "keep.txt"), "w").write("neighbour\n")
    try:
        nbase = run.pick(6, 60)
        work = []
        for b in range(nbase):
            for g in GENERATORS:
                work.append((b, g))
        for wi, (b, g) in enumerate(work):
            if not run.mine(wi):
                continue
            r = run.rng("base", b)
            t, decls = base_tree(r)
            rr = run.rng("drive", b, g)
            names = {"dbc": ["can0.fcp", "default.fcp"], "can_c": ["ecu_can.c", "ecu_can.h", "can_frame.h"], "cpp": ["fcp.h", "buffer.h", "rpc.h"], "nop": ["x"], "vfprobe": ["probe.txt", "empty.marker"]}[g]
            # (a) positive, every directory state
            for ds in DIR_STATES + CONTENT_STATES:
                drive(run, g, t, False, "none", ds, root, known_names=names)
            # (b) general rules
            for rule in c09.RULES[1:]:
                tt = c09.inject(rr, t, rule)
                if tt is None:
                    continue
                drive(run, g, tt, True, "general/" + rule, rr.choice(DIR_STATES), root, known_names=names)
                if rr.random() < 0.5:
                    drive(run, g, tt, True, "edited-after-accept/" + rule, rr.choice(DIR_STATES), root, known_names=names, before=(t, rr.choice(GENERATORS)))
            # (b') a long-lived manager: a rejected schema first, then a well-formed one (must be generated)
            # and then another ill-formed one (must be refused)
            bad = next((c09.inject(rr, t, rule) for rule in rr.sample(c09.RULES[1:], len(c09.RULES) - 1) if c09.inject(rr, t, rule) is not None), None)
            if bad is not None:
                drive(run, g, t, False, "none", rr.choice(DIR_STATES), root, known_names=names, before=(bad, rr.choice(GENERATORS), "rejected-first"))
                bad2 = c09.inject(rr, t, rr.choice(c09.RULES[1:]))
                if bad2 is not None:
                    drive(run, g, bad2, True, "general/after-a-rejected-schema", rr.choice(DIR_STATES), root, known_names=names, before=(bad, rr.choice(GENERATORS), "rejected-first"))
            # (c) plug-in rules
            if g in ("dbc", "can_c"):
                drive(run, g, inject_plugin(rr, t, "unknown-struct"), True, "plugin/unknown-struct", rr.choice(DIR_STATES), root, known_names=names)
            if g == "dbc":
                drive(run, g, inject_plugin(rr, t, "duplicate-can-id"), True, "plugin/duplicate-can-id", rr.choice(DIR_STATES), root, known_names=names)
            if g == "can_c":
                drive(run, g, inject_plugin(rr, t, "oversize"), True, "plugin/oversize", rr.choice(DIR_STATES), root, known_names=names)
            # (d) synthetic rejecting check in every category
            # node kinds the documented category list does not name: a registration that is accepted is a
            # registered check like any other (the schema has services, methods and enumerators)
            for cat in ("service", "method", "enumeration"):
                drive(run, g, t, True, "synthetic/%s/last" % cat, rr.choice(DIR_STATES), root, probe=(cat, "last"), known_names=names)
            for cat in CATEGORIES:
                for pos in ("last", "first", "pair", "late", "nothing", "attempt"):
                    drive(run, g, t, True, "synthetic/%s/%s" % (cat, pos), rr.choice(DIR_STATES), root, probe=(cat, pos), known_names=names)
        if run.shard == 0:
            cli_cases(run, root)
    finally:
        shutil.rmtree(root, ignore_errors=True)


def conclude(run):
    run.require("path_style/relative", "path_style/symlinked-parent", "path_style/dot-dot", "edited_after_acceptance", "cli_runs", "generate_calls", "rejections_wrote_nothing", "successes_wrote_exactly_returned", "files_compared")


def replay(run, case):
    sys.dont_write_bytecode = True
    if PROBE_PLUGIN_DIR not in sys.path:
        sys.path.append(PROBE_PLUGIN_DIR)
    root = env.scratch("c10r")
    os.makedirs(os.path.join(root, "neighbour"))
    try:
        src = case["rejection_source"]
        probe = None
        if src.startswith("synthetic/"):
            _, cat, pos = src.split("/")
            probe = (cat, pos)
        before = (case["tree_before"], case["first_generator"]) if "tree_before" in case else ((case["rejected_before"], case["first_generator"], "rejected-first") if "rejected_before" in case else None)
        drive(run, case["generator"], case["tree"], src != "none", src, case["dir_state"], root, probe=probe, before=before, path_style=case.get("path_style", "absolute"))
    finally:
        shutil.rmtree(root, ignore_errors=True)
