"""Generate, compile and drive the C++ produced by fcp_cpp."""

import hashlib
import os
import shutil
import subprocess

from .. import env
from ..mon import sanit
from . import driver

HARNESS = os.path.join(os.path.dirname(__file__), "harness.cpp")
THIRD = os.path.join(env.VERIF, "third_party")
CACHE = os.path.join(env.VERIF, ".cache", "cpp")
FIXED = {"fcp.h", "buffer.h", "decoders.h", "dynamic.h", "reflection.h", "can.h", "i_can_schema.h",
         "can_static_schema.h", "can_dynamic_schema.h", "i_schema.h", "rpc.h"}


def generate(fcp, out_dir):
    """Runs the real generator and writes every returned file.  Returns {name: contents}."""
    import fcp_cpp

    files = fcp_cpp.Generator().generate(fcp, {"output": out_dir})
    os.makedirs(out_dir, exist_ok=True)
    out = {}
    for f in files:
        p = str(f["path"])
        with open(p, "w") as fh:
            fh.write(str(f["contents"]))
        out[os.path.basename(p)] = str(f["contents"])
    return out


def reflection_binary(fcp, path):
    from fcp import serde
    from fcp.reflection import get_reflection_schema

    data = serde.encode(get_reflection_schema().unwrap(), "Fcp", fcp.reflection())
    with open(path, "wb") as f:
        f.write(bytes(data))
    return bytes(data)


def build(out_dir, files, with_services=True):
    """Compiles the generic harness against the generated headers.  Returns (binary or None, log).
    vf_includes.h pulls in the remaining generated headers so that 'compiles' covers them."""
    extra = []
    if with_services:
        extra.append("rpc.h")
        extra += sorted(n for n in files if n.endswith(("_client.h", "_server.h")))
    with open(os.path.join(out_dir, "vf_includes.h"), "w") as f:
        f.write("".join('#include "%s"\n' % n for n in extra))
    shutil.copy(HARNESS, os.path.join(out_dir, "vf_harness.cpp"))
    key = hashlib.sha256()
    for n in sorted(files):
        key.update(n.encode())
        key.update(sanit_strip(files[n]).encode())
    key.update(open(HARNESS, "rb").read())
    key.update(" ".join(sanit.CXX_FLAGS).encode())
    key.update("".join(extra).encode())
    cached = os.path.join(CACHE, key.hexdigest())
    binary = os.path.join(out_dir, "vf_harness")
    if os.path.exists(cached):
        try:
            shutil.copy(cached, binary)
            return binary, "cached"
        except OSError:
            pass  # pruned by a concurrent shard between the test and the copy: compile instead
    rc, log = sanit.compile_cxx(["vf_harness.cpp"], "vf_harness", [".", THIRD], out_dir)
    if rc != 0:
        return None, log
    try:
        os.makedirs(CACHE, exist_ok=True)
        tmp = cached + ".tmp%d" % os.getpid()
        shutil.copy(binary, tmp)
        os.replace(tmp, cached)
        prune_cache()
    except OSError:
        pass
    return binary, log


def sanit_strip(contents):
    import re

    return re.sub(r"^// Generated using fcp .*$", "", contents, flags=re.M)


def prune_cache(limit=60):
    try:
        ents = sorted((os.path.getmtime(os.path.join(CACHE, f)), f) for f in os.listdir(CACHE))
        for _, f in ents[:-limit]:
            os.remove(os.path.join(CACHE, f))
    except OSError:
        pass


def syntax_only(out_dir, header, compiler="clang++", timeout=300):
    """Compile one generated header on its own (syntax only).  Returns (ok, log)."""
    tu = os.path.join(out_dir, "vf_tu_%s.cpp" % header.replace(".", "_"))
    with open(tu, "w") as f:
        f.write('#include "%s"\nint main() { return 0; }\n' % header)
    p = subprocess.run([compiler, "-std=c++17", "-fsyntax-only", "-w", "-I.", "-I" + THIRD, os.path.basename(tu)], cwd=out_dir, capture_output=True, text=True, timeout=timeout)
    return p.returncode == 0, (p.stdout + p.stderr)


def run(binary, lines, cwd, reflection=None, other_reflection=None, reload=False):
    args = [reflection] if reflection else []
    if reflection and (other_reflection or reload):
        args.append(other_reflection or "-")
    if reflection and reload:
        args.append("reload")
    return driver.run_commands(binary, lines, cwd, args=args, timeout=900)
