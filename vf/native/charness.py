"""C harness generator for the code produced by fcp_can_c (C06, C15, C19).

The harness is derived from the *generated headers* (struct typedefs, function
prototypes), so it follows whatever names the generator chose, and from the
schema description for the member types."""

import os
import re

TYPEDEF = re.compile(r"typedef struct \{([^{}]*)\}\s*CanMsg(\w+);", re.S)
MEMBER = re.compile(r"^\s*([\w ]+?)\s+(\w+)(\[\d+\])?;\s*$", re.M)
ENCODE = re.compile(r"CanFrame can_encode_msg_(\w+)\(const CanMsg(\w+) \*msg\);")
DECODE = re.compile(r"CanMsg(\w+) can_decode_msg_(\w+)\(const CanFrame \*frame\);")
SCHED = re.compile(r"void can_send_(\w+)_msgs_scheduled\(const CanDevice(\w+) \*dev")
DEVSTRUCT = re.compile(r"typedef struct \{([^{}]*)\}\s*CanDevice(\w+);", re.S)
MSGID = re.compile(r"#define CAN_MSG_ID_(\w+) (-?\d+)")
PERIOD = re.compile(r"#define CAN_MSG_PERIOD_(\w+) (-?\d+)")


def scan_headers(out_dir):
    """{'messages': {pascal: {'members': [(ctype, name)], 'snake': s, 'header': h}}, 'devices': {...}}"""
    info = {"messages": {}, "devices": {}, "headers": [], "sources": []}
    for fn in sorted(os.listdir(out_dir)):
        p = os.path.join(out_dir, fn)
        if fn.endswith("_can.c") or fn == "can_signal_parser.c":
            info["sources"].append(fn)
        if not fn.endswith("_can.h"):
            continue
        info["headers"].append(fn)
        txt = open(p).read()
        enc = {m.group(2): m.group(1) for m in ENCODE.finditer(txt)}
        ids = {m.group(1): int(m.group(2)) for m in MSGID.finditer(txt)}
        periods = {m.group(1): int(m.group(2)) for m in PERIOD.finditer(txt)}
        for m in TYPEDEF.finditer(txt):
            body, pascal = m.group(1), m.group(2)
            members = [(mm.group(1).strip(), mm.group(2), mm.group(3)) for mm in MEMBER.finditer(body)]
            snake = enc.get(pascal)
            info["messages"][pascal] = {
                "members": members, "snake": snake, "header": fn,
                "id_macro": ids.get((snake or "").upper()), "period": periods.get((snake or "").upper()),
            }
        for m in DEVSTRUCT.finditer(txt):
            body, dev = m.group(1), m.group(2)
            msgs = [(mm.group(1).strip(), mm.group(2)) for mm in MEMBER.finditer(body)]
            sched = [s.group(1) for s in SCHED.finditer(txt) if s.group(2) == dev]
            info["devices"][dev] = {"members": msgs, "sched": sched[0] if sched else None, "header": fn}
    return info


def hist_mask(kind, width):
    """Bits of the history value pattern a member can hold (non-negative in a signed member)."""
    return (1 << max(0, min(7, width - (1 if kind == "i" else 0)))) - 1


def c_harness(info, msg_order, kinds, widths=None):
    """msg_order: [pascal names]; kinds: {pascal: {member name: 'u'|'i'|'f32'|'f64'|'enum'}}.

    Protocol (one command per stdin line, '#<n>' echoed and flushed before executing line n):
      E <m> v...   fill message m (ints/enums decimal, floats as hex bit patterns), encode, print
                   'F id dlc data', then decode that frame and print 'V v...'
      D <m> <16 hex>  decode an arbitrary frame, print 'V v...'
      H <d> t...   run a scheduler history on device d in a forked child; before call j every
                   integer member k of message i is set to (J*17 + i*31 + k*7) & 0x7f (cut to the member's width),
                   where J = j for the LAST integer member of a message and j/3 for the others - so on two
                   calls out of three only the last member of every message changes;
                   prints 'S j id dlc data' per transmitted frame and 'X' at the end
      J <d> t...   as H, with the device value double-buffered: two struct instances passed in turns
      G 0 t...     the same, but EVERY device's scheduler is called (in device order) with each timestamp
    """
    out = ['#include <stdio.h>', '#include <stdlib.h>', '#include <string.h>', '#include <stdint.h>',
           '#include <inttypes.h>', '#include <unistd.h>', '#include <sys/wait.h>', '#include "can_frame.h"']
    for h in info["headers"]:
        out.append('#include "%s"' % h)
    out.append("static void pframe(const char *tag, long j, const CanFrame *f){ if (j >= 0) printf(\"%s %ld %u %u \", tag, j, (unsigned)f->id, (unsigned)f->dlc); else printf(\"%s %u %u \", tag, (unsigned)f->id, (unsigned)f->dlc); for(int i=0;i<8;i++) printf(\"%02x\", f->data[i]); printf(\"\\n\"); }")
    out.append("static long g_call = 0;")
    out.append("static void cb(const CanFrame *f){ pframe(\"S\", g_call, f); }")
    # per message: fill / print
    for mi, pascal in enumerate(msg_order):
        m = info["messages"][pascal]
        k = kinds[pascal]
        out.append("static int fill_%d(CanMsg%s *m, char **tok, int n){ int i=0; memset(m,0,sizeof(*m));" % (mi, pascal))
        for ctype, name, arr in m["members"]:
            kind = k[name]
            out.append("  if (i>=n) return -1;")
            if kind == "f32":
                out.append("  { uint32_t b=(uint32_t)strtoul(tok[i++],NULL,16); float f; memcpy(&f,&b,4); m->%s = f; }" % name)
            elif kind == "f64":
                out.append("  { uint64_t b=strtoull(tok[i++],NULL,16); double f; memcpy(&f,&b,8); m->%s = f; }" % name)
            elif kind == "i":
                out.append("  m->%s = (%s)strtoll(tok[i++],NULL,10);" % (name, ctype))
            else:
                out.append("  m->%s = (%s)strtoull(tok[i++],NULL,10);" % (name, ctype))
        out.append("  return 0; }")
        out.append("static void show_%d(const CanMsg%s *m){ printf(\"V\");" % (mi, pascal))
        for ctype, name, arr in m["members"]:
            kind = k[name]
            if kind == "f32":
                out.append("  { uint32_t b; float f = m->%s; memcpy(&b,&f,4); printf(\" %%08x\", b); }" % name)
            elif kind == "f64":
                out.append("  { uint64_t b; double f = m->%s; memcpy(&b,&f,8); printf(\" %%016\" PRIx64, b); }" % name)
            elif kind == "i":
                out.append("  printf(\" %%lld\", (long long)m->%s);" % name)
            else:
                out.append("  printf(\" %%llu\", (unsigned long long)m->%s);" % name)
        out.append("  printf(\"\\n\"); }")
    devs = sorted(d for d, v in info["devices"].items() if v["sched"])
    for di, dev in enumerate(devs):
        d = info["devices"][dev]
        out.append("static void step_%d(CanDevice%s *dev, int j, uint32_t t){ g_call=j;" % (di, dev))
        for i, (mtype, mname) in enumerate(d["members"]):
            pascal = mtype.replace("CanMsg", "", 1)
            ints = [kk for kk, (_c, nn, _a) in enumerate(info["messages"][pascal]["members"]) if kinds[pascal][nn] in ("u", "i", "enum")]
            for kidx, (ctype, name, arr) in enumerate(info["messages"][pascal]["members"]):
                if kinds[pascal][name] in ("u", "i", "enum"):
                    mask = hist_mask(kinds[pascal][name], (widths or {}).get(pascal, {}).get(name, 64))
                    out.append("    dev->%s.%s = (%s)(((%s)*17 + %d*31 + %d*7) & 0x7f & %d);" % (mname, name, ctype, "j" if kidx == ints[-1] else "j/3", i, kidx, mask))
        out.append("    can_send_%s_msgs_scheduled(dev, t, cb); }" % d["sched"])
        # alt != 0: the caller keeps its device value double-buffered and passes the two instances in turns (the
        # schedule belongs to the device, not to the address of the struct it is described by)
        out.append("static void hist_%d(char **tok, int n, int alt){ CanDevice%s dev[2]; memset(dev,0,sizeof(dev));" % (di, dev))
        out.append("  for (int j=0;j<n;j++){ uint32_t t=(uint32_t)strtoul(tok[j],NULL,10); step_%d(&dev[alt ? (j & 1) : 0], j, t); }" % di)
        out.append("}")
    # G: every device of the program is called, in device order, with each timestamp (one process, as on
    # a node that hosts several logical devices)
    out.append("static void hist_all(char **tok, int n){")
    for di, dev in enumerate(devs):
        out.append("  CanDevice%s dev%d; memset(&dev%d,0,sizeof(dev%d));" % (dev, di, di, di))
    out.append("  for (int j=0;j<n;j++){ uint32_t t=(uint32_t)strtoul(tok[j],NULL,10);")
    for di, dev in enumerate(devs):
        out.append("    step_%d(&dev%d, j, t);" % (di, di))
    out.append("  } }")
    out.append("int main(void){ static char line[1<<16]; long n=0; char *tok[4096];")
    out.append("  while (fgets(line,sizeof line,stdin)) { printf(\"#%ld\\n\", n++); fflush(stdout); int c=0; for(char *p=strtok(line,\" \\n\"); p && c<4096; p=strtok(NULL,\" \\n\")) tok[c++]=p; if(c<2) { printf(\"BAD\\n\"); continue; }")
    out.append("    int idx = atoi(tok[1]);")
    out.append("    if (tok[0][0]=='E' || tok[0][0]=='D') { switch(idx){")
    for mi, pascal in enumerate(msg_order):
        m = info["messages"][pascal]
        out.append("      case %d: { CanMsg%s m; CanFrame f; memset(&f,0,sizeof f);" % (mi, pascal))
        out.append("        if (tok[0][0]=='E') { if (fill_%d(&m, tok+2, c-2)) { printf(\"BAD\\n\"); break; } f = can_encode_msg_%s(&m); pframe(\"F\", -1, &f); }" % (mi, m["snake"]))
        out.append("        else { for(int i=0;i<8;i++){ unsigned b; sscanf(tok[2]+2*i,\"%2x\",&b); f.data[i]=(uint8_t)b; } f.dlc=8; }")
        out.append("        { CanMsg%s r = can_decode_msg_%s(&f); show_%d(&r); } break; }" % (pascal, m["snake"], mi))
    out.append("      default: printf(\"BAD\\n\"); } }")
    out.append("    else if (tok[0][0]=='H' || tok[0][0]=='J') { fflush(stdout); pid_t pid=fork(); if(pid==0){ switch(idx){")
    for di, dev in enumerate(devs):
        out.append("      case %d: hist_%d(tok+2, c-2, tok[0][0]=='J'); break;" % (di, di))
    out.append("      default: printf(\"BAD\\n\"); } printf(\"X\\n\"); fflush(stdout); _exit(0); } int st=0; waitpid(pid,&st,0); if(!(WIFEXITED(st) && WEXITSTATUS(st)==0)) printf(\"CHILD-FAILED %d\\n\", st); }")
    out.append("    else if (tok[0][0]=='G') { fflush(stdout); pid_t pid=fork(); if(pid==0){ hist_all(tok+2, c-2); printf(\"X\\n\"); fflush(stdout); _exit(0); } int st=0; waitpid(pid,&st,0); if(!(WIFEXITED(st) && WEXITSTATUS(st)==0)) printf(\"CHILD-FAILED %d\\n\", st); }")
    out.append("    else printf(\"BAD\\n\"); fflush(stdout); }")
    out.append("  return 0; }")
    return "\n".join(out) + "\n", devs
