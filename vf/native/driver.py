"""Line-protocol driver shared by the C and C++ harnesses: feeds commands over
stdin, attributes output (and sanitizer reports) to commands via the '#<n>'
echo, restarts after a crash so one defect never masks the rest."""

from ..mon import sanit


def run_commands(binary, lines, cwd, args=(), timeout=600, max_restarts=40):
    """Returns (outputs: list[list[str]] per command, crashes: [(index, rc, reports, stderr_tail)])."""
    outputs = [None] * len(lines)
    crashes = []
    start = 0
    restarts = 0
    while start < len(lines):
        rc, out, err = sanit.run_binary(binary, "".join(l + "\n" for l in lines[start:]), cwd, timeout=timeout, args=args)
        cur = None
        for ln in (out or "").split("\n"):
            if ln.startswith("#") and ln[1:].isdigit():
                cur = start + int(ln[1:])
                if cur < len(outputs):
                    outputs[cur] = []
            elif cur is not None and cur < len(outputs) and ln != "":
                outputs[cur].append(ln)
        if rc == 0:
            break
        # crashed (or timed out) while executing command `cur`
        idx = cur if cur is not None else start
        reports = sanit.sanitizer_reports(err or "")
        crashes.append((idx, rc, reports, (err or "")[-3000:]))
        outputs[idx] = None
        start = idx + 1
        restarts += 1
        if restarts > max_restarts:
            break
    return outputs, crashes
