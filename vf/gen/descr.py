"""Random schema descriptions that use every production of the FCP grammar
(parser-facing checks C07, C08, C11, C12, C20).  No fcp imports."""

import re

from . import schema as S

# a user type whose name begins with a builtin type token followed by an identifier
# character is mis-lexed by the grammar (known finding K4, see DESIGN.md section 4)
K4_RE = re.compile(r"^(u\d{1,2}|i\d{1,2}|f32|f64|str)[A-Za-z_]")
BUILTIN_RE = re.compile(r"^(u\d{1,2}|i\d{1,2}|f32|f64|str)$")

LETTERS = "abcdefghijklmnopqrstuvwxyzABCDEFGHIJKLMNOPQRSTUVWXYZ"
TAIL = "abcdefghijklmnopqrstuvwxyz0123456789_ABCXYZ"

# keywords are contextual in this grammar: they are legal identifiers wherever a name is expected
KEYWORD_NAMES = ["version", "enum", "impl", "for", "as", "signal", "service", "method",
                 "returns", "device", "mod", "Optional", "unit", "range", "u", "i", "f", "s",
                 "_x", "__", "_", "A", "a1", "Z_9", "u123", "i999", "f320", "x" * 30]


# words that are literals in other languages (booleans, null, infinities, hex-looking); here they are plain identifiers
LITERAL_WORDS = ["true", "false", "True", "False", "null", "None", "nil", "yes", "no", "on", "off", "inf", "nan", "NaN",
                 "e5", "x1F", "_0", "little", "big", "TRUE", "FALSE"]


KNOWN_KEYS = ["endianess", "endianness", "endian", "byte_order", "mux_count", "mux_signal", "bitstart", "bit_start", "start", "length",
              "scale", "offset", "min", "max", "min_value", "max_value", "unit", "comment", "type", "id", "bus", "device", "period",
              "name", "dlc", "signed", "is_signed"]


KEYWORD_PREFIXED = ["assist", "asas", "ass5_a", "as_", "format", "forS", "implement", "implcan", "modulo", "models",
                    "signals", "signalled", "enumerate", "enums", "structure2", "versions", "devices", "deviceA",
                    "serviceable", "methodical", "returnsX", "Optionals", "units", "ranges", "modx", "fork"]


def ident(r, avoid=(), type_name=False):
    for _ in range(200):
        c = r.random()
        if c < 0.12:
            n = r.choice(KEYWORD_NAMES)
        elif c < 0.15:
            n = r.choice(LITERAL_WORDS)
        elif c < 0.20:
            # one word that BEGINS with a keyword of the grammar (a lexer without word boundaries splits it)
            n = r.choice(KEYWORD_PREFIXED) + r.choice(["", "", "_1", "X"])
        else:
            n = r.choice(LETTERS + "_") + "".join(r.choice(TAIL) for _ in range(r.choice([0, 1, 2, 3, 5, 8])))
        if n in avoid:
            continue
        if BUILTIN_RE.match(n):
            continue
        if type_name and r.random() < 0.08:
            # user types whose names begin with a builtin type token (formerly known finding K4)
            n = r.choice(["u8x", "i2c_state", "stream_cfg", "string", "f32vec", "structure", "u1a", "str_", "f64_", "i16le"]) + r.choice(["", "", "_t", "2"])
            if n in avoid:
                continue
        # 'struct' as a *type* name is K4 ('str' + 'uct'); as other names it is fine
        return n
    raise RuntimeError("no fresh identifier")


def gen_type(r, types, depth=0, maxdepth=4):
    """types: list of ('struct'|'enum', name) declared so far."""
    k = r.random()
    if depth >= maxdepth or k < 0.40:
        c = r.random()
        if c < 0.30:
            return ("u", r.randint(1, 64))
        if c < 0.55:
            return ("i", r.randint(1, 64))
        if c < 0.63:
            return ("f32",)
        if c < 0.71:
            return ("f64",)
        if c < 0.80 or not types:
            return ("str",)
        return r.choice(types)
    if k < 0.55 and types:
        return r.choice(types)
    if k < 0.72:
        return ("arr", gen_type(r, types, depth + 1, maxdepth), r.choice([1, 2, 3, 7, 16, 255, 1000]))
    if k < 0.87:
        return ("dyn", gen_type(r, types, depth + 1, maxdepth))
    return ("opt", gen_type(r, types, depth + 1, maxdepth))


STR_CHARS = "abc XYZ_-+/*.,:;{}[]()@|#!?<>=~'0123456789%$&^`"


ESCAPES = ['\\"', "\\\\", "\\n", "\\t", "\\x"]


def gen_string(r):
    """Raw body of a string literal (the tree keeps escapes verbatim): may contain backslash
    escapes, in particular an escaped quote at either end."""
    c = r.random()
    if c < 0.1:
        return ""
    if c < 0.16:
        return r.choice(["°C", "µs", "Ω", "mm²", "m/s²", "温度", "é", "kΩ·m", "‰", "naïve ünits",
                         "\u2126", "\u212b", "\u212a", "e\u0301", "n\u0303o", "\ufb01"])  # the last six are not NFC-normalised
    if c < 0.19:
        # strings that LOOK like numbers, booleans or nothing at all in some notation: they are strings
        return r.choice(["0x1A0", "0XFF", "-0x10", "0b101", "0o17", "1e3", "42", "007", "-1", "+5", "1_000", "3.0", " 12 ", "true", "false", "null", "None",
                         "nan", "inf", "0x", "1,5", "١٢٣"])
    if c < 0.23:
        # text that looks like syntax, and literal TAB characters (strings are kept verbatim)
        return r.choice(["// not a comment", "/* nor this */", "a // b /* c", "struct X { }", "mod a.b;", "|", ",",
                         "m\ts", "\t", "a\t\tb ", " \tkm/h"])
    if c < 0.37:
        parts = []
        for _ in range(r.randint(1, 4)):
            parts.append(r.choice(ESCAPES) if r.random() < 0.6 else "".join(r.choice(STR_CHARS) for _ in range(r.randint(1, 4))))
        if r.random() < 0.4:
            parts.append('\\"')
        if r.random() < 0.3:
            parts.insert(0, '\\"')
        return "".join(parts)
    return "".join(r.choice(STR_CHARS) for _ in range(r.randint(1, 10)))


def gen_number(r):
    c = r.random()
    if c < 0.08:
        # the same numbers spelled with leading zeros / an exponent
        return r.choice([("num", 42, "0042"), ("num", 16, "016"), ("num", 7, "007"), ("num", -8, "-08"), ("num", 0, "00"),
                         ("num", 1000.0, "1e3"), ("num", 0.5, "00.5"), ("num", 10, "010")])
    if c < 0.5:
        return r.choice([0, 1, -1, 7, 10, 255, 2047, 65536, -32768, 2 ** 31, 10 ** 12, r.randint(-1000, 5000)])
    return r.choice([1.5, -0.25, 3.0, 1e3, 2.5e-3, -1e-9, 1e300, 0.0, 123456.789])


def gen_value(r, depth=0):
    k = r.random()
    if depth < 2 and k < 0.15:
        return [gen_value(r, depth + 1) for _ in range(r.randint(1, 3))]
    if k < 0.50:
        return gen_number(r)
    if k < 0.70:
        return ("id", ident(r))
    if k < 0.75:
        return ("id", r.choice(LITERAL_WORDS))
    return ("s", gen_string(r))


def gen_kv(r, lo, hi, fixed=None):
    out = []
    keys = set()
    for k, v in fixed or []:
        out.append((k, v))
        keys.add(k)
    for _ in range(r.randint(lo, hi)):
        k = ident(r, avoid=keys)
        if r.random() < 0.3:
            # keys the back ends give a meaning to, in every spelling found in the wild (several at once): to the
            # front end and to reflection they are keys like any other
            k = r.choice(KNOWN_KEYS)
            if k in keys:
                continue
        keys.add(k)
        out.append((k, gen_value(r)))
    return out


def gen_struct(r, name, types, nfields=(1, 6)):
    fields = []
    names = set()
    ids = r.sample(range(0, 64), r.randint(*nfields))
    if r.random() < 0.15:
        # field ids are not small by nature: 16-bit and 32-bit boundaries, ids that agree in their low 16 bits
        big = r.sample([255, 256, 65535, 65536, 65537, 70000, 131072 + ids[0], (1 << 31) - 1, (1 << 32) - 1], min(len(ids), r.randint(1, 3)))
        for j, b in enumerate(big):
            if b not in ids:
                ids[r.randrange(len(ids))] = b
        if len(set(ids)) != len(ids):
            ids = list(dict.fromkeys(ids)) or [0]
    for fid in ids:
        fn = ident(r, avoid=names)
        names.add(fn)
        f = {"name": fn, "id": fid, "type": gen_type(r, types)}
        if r.random() < 0.3:
            f["unit"] = gen_string(r)
        if r.random() < 0.3:
            lo = r.choice([0, 0.0, -1.5, 2.25, -100, 1e-3])
            hi = r.choice([10, 10.0, 1e6, 3.5, 255, 1e12])
            # (one range in six is written descending, range(4095, 0): min and max are what the source says)
            f["range"] = (hi, lo) if r.random() < 0.17 else (lo, hi)
        fields.append(f)
    return {"kind": "struct", "name": name, "fields": fields}


def gen_enum(r, name):
    vals = []
    names = set()
    used = set()
    for _ in range(r.randint(1, 5)):
        n = ident(r, avoid=names)
        v = r.choice([0, 1, 2, 3, 7, 8, 255, 256, 300, 65535, r.randint(0, 2 ** 31 - 1)])
        if v in used:
            continue
        names.add(n)
        used.add(v)
        vals.append((n, v))
    return {"kind": "enum", "name": name, "values": vals}


def gen_impl(r, structs, used_pairs):
    st = r.choice(structs)
    proto = "can" if r.random() < 0.3 else ident(r)  # 'can' is the protocol the dbc / can_c / cpp back ends look for
    rename = ident(r) if r.random() < 0.4 else None
    if r.random() < 0.06:
        # a declared (renamed) binding on the protocol spelled 'default' - next to the implicit default binding of its struct
        proto = "default"
        rename = rename or ident(r)
    if rename is not None and r.random() < 0.15:
        rename = r.choice(["assist", "asas", "ass5_a", "as_", "ask", "asX1"])
    name = rename or st["name"]
    if (name, proto) in used_pairs:
        return None
    used_pairs.add((name, proto))
    items = []
    for k, v in gen_kv(r, 0, 3):
        items.append(("field", k, v))
    signames = set()
    for _ in range(r.randint(0, 3)):
        sn = r.choice(st["fields"])["name"]
        if sn in signames and r.random() < 0.6:
            continue  # (otherwise: a second signal block for the same field - two blocks, both part of the schema)
        signames.add(sn)
        items.append(("signal", sn, gen_kv(r, 1, 3)))
    if not items:
        items.append(("field", "id", r.randint(0, 2047)))
    r.shuffle(items)
    # duplicate keys inside one binding are not generated (the tree keeps the last)
    return {"kind": "impl", "protocol": proto, "type": st["name"], "name": rename, "items": items}


def gen_service(r, name, structs):
    methods = []
    names = set()
    for _ in range(r.randint(1, 3)):
        mn = ident(r, avoid=names)
        names.add(mn)
        a = r.choice(structs)["name"] if structs and r.random() < 0.8 else ident(r)
        b = r.choice(structs)["name"] if structs and r.random() < 0.8 else ident(r)
        methods.append({"name": mn, "id": r.randint(0, 255), "input": a, "output": b})
    return {"kind": "service", "name": name, "id": r.randint(0, 255), "methods": methods}


def gen_device(r, name, services):
    fixed = []
    if services and r.random() < 0.6:
        k = r.randint(1, min(3, len(services)))
        fixed.append(("services", [("id", s) for s in r.sample(services, k)]))
    fields = gen_kv(r, 0 if fixed else 1, 3, fixed)
    return {"kind": "device", "name": name, "fields": fields}


def gen_description(r, ndecl=(2, 9), want=None):
    """Random declaration list; every type reference is declared before use; type names are
    unique and outside K4; (binding name, protocol) pairs are unique."""
    decls = []
    types = []
    names = set()
    pairs = set()
    services = []

    def fresh(type_name=False):
        n = ident(r, avoid=names, type_name=type_name)
        names.add(n)
        return n

    kinds = list(want or [])
    n = r.randint(*ndecl)
    while len(kinds) < n:
        kinds.append(r.choices(["struct", "enum", "impl", "service", "device"], [45, 15, 20, 10, 10])[0])
    r.shuffle(kinds)
    if "struct" in kinds:  # make the first declaration useful
        kinds.remove("struct")
        kinds.insert(0, "struct")
    for k in kinds:
        structs = [d for d in decls if d["kind"] == "struct"]
        if k == "struct":
            nm = fresh(True)
            decls.append(gen_struct(r, nm, types))
            types.append(("struct", nm))
        elif k == "enum":
            nm = fresh(True)
            decls.append(gen_enum(r, nm))
            types.append(("enum", nm))
        elif k == "impl" and structs:
            d = gen_impl(r, structs, pairs)
            if d:
                decls.append(d)
                if r.random() < 0.25:
                    # a second binding of the SAME struct on the SAME protocol under another name (front and rear
                    # instances of one message): two bindings, both kept
                    import copy as _copy
                    twin = _copy.deepcopy(d)
                    twin["name"] = (d["name"] or d["type"]) + r.choice(["Rear", "_2", "B"])
                    if (twin["name"], twin["protocol"]) not in pairs:
                        pairs.add((twin["name"], twin["protocol"]))
                        if twin["items"] and r.random() < 0.5:
                            twin["items"] = twin["items"][:-1] or twin["items"]
                        decls.append(twin)
        elif k == "service":
            nm = fresh()
            decls.append(gen_service(r, nm, structs))
            services.append(nm)
        elif k == "device":
            decls.append(gen_device(r, fresh(), services))
    return decls


def has_k4(decls):
    for d in decls:
        if d["kind"] == "struct":
            for f in d["fields"]:
                for _, n in S.type_refs(f["type"]):
                    if K4_RE.match(n) or n == "struct" or n.startswith("struct"):
                        return True
    return False
