"""Schema-shape generators for the codec / layout / native checks.
Names are chosen to be legal identifiers in FCP, C and C++ and never start with
a builtin type token (u<digit>, i<digit>, f32, f64, str) - see known finding K4.
"""

from . import schema as S

BOUNDARY_WIDTHS = [1, 2, 3, 7, 8, 9, 15, 16, 17, 31, 32, 33, 63, 64]
ENUM_MAXES = [0, 1, 2, 3, 4, 5, 7, 8, 15, 16, 127, 128, 255, 256, 300, 511, 65535, 65536, (1 << 31) - 1,
              1 << 31, (1 << 32) - 1, 1 << 49, (1 << 53) - 1, 1 << 53, (1 << 63) - 1]


def mk_enum(name, mx, r=None):
    vals = {0, mx}
    if r is not None and mx > 1:
        for _ in range(2):
            vals.add(r.randint(0, mx))
    vals = sorted(vals)
    if r is not None and r.random() < 0.5:
        r.shuffle(vals)  # the largest enumerator is not necessarily declared last
    return {"kind": "enum", "name": name, "values": [("%s_V%d" % (name, v), v) for v in vals]}


def mk_struct(name, fields):
    """fields: [(fname, id, type)] or dicts."""
    fs = []
    for f in fields:
        if isinstance(f, dict):
            fs.append(f)
        else:
            fs.append({"name": f[0], "id": f[1], "type": f[2]})
    return {"kind": "struct", "name": name, "fields": fs}


def leaf_kinds(tier_thorough, r):
    """(tag, type, needed enum decl or None).  The alignment grid's leaf axis."""
    widths = list(range(1, 65)) if tier_thorough else sorted(set(BOUNDARY_WIDTHS + r.sample(range(1, 65), 10)))
    kinds = []
    for n in widths:
        kinds.append(("u%d" % n, ("u", n)))
        kinds.append(("i%d" % n, ("i", n)))
    kinds += [("f32", ("f32",)), ("f64", ("f64",)), ("str", ("str",))]
    return kinds


def grid_schema(kinds, offsets, prefix="G"):
    """One schema holding, for each (leaf kind, bit offset o), a struct
         { pre @0: u<o>   (absent when o == 0),  x @1: <leaf>,  post @2: u3 }
    so that every leaf kind is encoded at every bit offset mod 8 and is followed by
    another field (which exposes writers that do not advance the cursor)."""
    decls = []
    cells = []
    for tag, t in kinds:
        for o in offsets:
            name = "%s_%s_o%d" % (prefix, tag, o)
            fields = []
            if o:
                fields.append(("pre", 0, ("u", o)))
            fields.append(("x", 1, t))
            fields.append(("post", 2, ("u", 3)))
            decls.append(mk_struct(name, fields))
            cells.append((name, tag, o))
    return decls, cells


def container_grid(offsets):
    """Containers and enums at every offset."""
    decls = []
    cells = []
    enums = []
    for mx in [0, 1, 2, 5, 7, 200, 256, 65535, (1 << 31) - 1, 1 << 49, (1 << 53) - 1, (1 << 63) - 1]:
        e = mk_enum("Ge%d" % mx, mx)
        enums.append(e)
    decls += enums
    inner = mk_struct("Gin", [("a", 0, ("u", 3)), ("b", 1, ("i", 5)), ("c", 2, ("f32",))])
    decls.append(inner)
    leafs = [("enum%d" % i, ("enum", e["name"])) for i, e in enumerate(enums)]
    leafs += [
        ("optu5", ("opt", ("u", 5))),
        ("opti64", ("opt", ("i", 64))),
        ("optstr", ("opt", ("str",))),
        ("optf64", ("opt", ("f64",))),
        ("dynu3", ("dyn", ("u", 3))),
        ("dynstr", ("dyn", ("str",))),
        ("dynf32", ("dyn", ("f32",))),
        ("arru3", ("arr", ("u", 3), 3)),
        ("arri11", ("arr", ("i", 11), 2)),
        ("arrstr", ("arr", ("str",), 2)),
        ("struct", ("struct", "Gin")),
        ("arrstruct", ("arr", ("struct", "Gin"), 2)),
        ("dynstruct", ("dyn", ("struct", "Gin"))),
        ("optstruct", ("opt", ("struct", "Gin"))),
        ("optarr", ("opt", ("arr", ("u", 7), 2))),
        ("arropt", ("arr", ("opt", ("i", 3)), 2)),
        ("dyndyn", ("dyn", ("dyn", ("u", 1)))),
        ("optopt", ("opt", ("opt", ("u", 9)))),
        ("arrarr", ("arr", ("arr", ("u", 2), 2), 2)),
        ("dynenum", ("dyn", ("enum", "Ge5"))),
        ("optdyn", ("opt", ("dyn", ("u", 8)))),
        ("dynu16", ("dyn", ("u", 16))),
        ("dynu24", ("dyn", ("u", 24))),
        ("dynu64", ("dyn", ("u", 64))),
        ("dyni32", ("dyn", ("i", 32))),
        ("dyni8", ("dyn", ("i", 8))),
        ("dynf64", ("dyn", ("f64",))),
        ("dynenum0", ("dyn", ("enum", "Ge0"))),
        ("arrenum0", ("arr", ("enum", "Ge0"), 3)),
    ]
    for tag, t in leafs:
        for o in offsets:
            name = "GC_%s_o%d" % (tag, o)
            fields = []
            if o:
                fields.append(("pre", 0, ("u", o)))
            fields.append(("x", 1, t))
            fields.append(("post", 2, ("u", 3)))
            decls.append(mk_struct(name, fields))
            cells.append((name, tag, o))
            if t[0] in ("dyn", "opt", "arr"):
                # the same container as the LAST field of the message (nothing behind it absorbs an overrun)
                decls.append(mk_struct("GL_%s_o%d" % (tag, o), fields[:-1]))
                cells.append(("GL_%s_o%d" % (tag, o), tag + "-last", o))
    return decls, cells


def rand_leaf(r, enums, allow=("u", "i", "f32", "f64", "str", "enum")):
    while True:
        c = r.random()
        if c < 0.30 and "u" in allow:
            return ("u", r.choice(BOUNDARY_WIDTHS) if r.random() < 0.5 else r.randint(1, 64))
        if c < 0.58 and "i" in allow:
            return ("i", r.choice(BOUNDARY_WIDTHS) if r.random() < 0.5 else r.randint(1, 64))
        if c < 0.66 and "f32" in allow:
            return ("f32",)
        if c < 0.74 and "f64" in allow:
            return ("f64",)
        if c < 0.84 and "str" in allow:
            return ("str",)
        if c >= 0.84 and enums and "enum" in allow:
            return ("enum", r.choice(enums))
        if c >= 0.84 and not enums:
            return ("u", 8)


def rand_type(r, enums, structs, depth=0, maxdepth=3, allow_var=True):
    k = r.random()
    if depth >= maxdepth or k < 0.45:
        allow = ("u", "i", "f32", "f64", "str", "enum") if allow_var else ("u", "i", "f32", "f64", "enum")
        return rand_leaf(r, enums, allow)
    if k < 0.60 and structs:
        return ("struct", r.choice(structs))
    if k < 0.75 or not allow_var:
        return ("arr", rand_type(r, enums, structs, depth + 1, maxdepth, allow_var), r.randint(1, 4))
    if k < 0.90:
        return ("dyn", rand_type(r, enums, structs, depth + 1, maxdepth, allow_var))
    return ("opt", rand_type(r, enums, structs, depth + 1, maxdepth, allow_var))


def random_codec_schema(r, n_structs=(1, 6), n_enums=(0, 3), prefix="R", allow_var=True, maxdepth=3,
                        fixed_only_names=None):
    """Random enums + structs; ids drawn out of order; later structs may embed earlier ones."""
    decls = []
    enums = []
    structs = []
    for i in range(r.randint(*n_enums)):
        n = "%sE%d" % (prefix, i)
        decls.append(mk_enum(n, r.choice(ENUM_MAXES), r))
        enums.append(n)
    for i in range(r.randint(*n_structs)):
        n = "%sS%d" % (prefix, i)
        ids = r.sample(range(0, 24), r.randint(1, 6))
        fields = [("f%d" % j, fid, rand_type(r, enums, structs, 0, maxdepth, allow_var)) for j, fid in enumerate(ids)]
        decls.append(mk_struct(n, fields))
        structs.append(n)
    # interleave enums and structs a little while keeping declare-before-use:
    return decls


def shape_sig(sch, name):
    """Shape signature of a struct: sorted multiset of (kind path, width, bit offset mod 8 or 'v')."""
    sig = []

    def walk(t, off, path):
        k = t[0]
        if k in ("u", "i"):
            sig.append((path + (k,), t[1], off))
            return None if off is None else (off + t[1]) % 8
        if k == "f32":
            sig.append((path + (k,), 32, off))
            return off
        if k == "f64":
            sig.append((path + (k,), 64, off))
            return off
        if k == "enum":
            w = sch.enum_width(t[1])
            sig.append((path + (k,), w, off))
            return None if off is None else (off + w) % 8
        if k == "str":
            sig.append((path + (k,), 0, off))
            return off
        if k == "struct":
            for f in sch.fields_by_id(t[1]):
                off = walk(f["type"], off, path + ("s",))
            return off
        if k == "arr":
            for _ in range(min(t[2], 2)):
                off = walk(t[1], off, path + ("a%d" % t[2],))
            return off if t[2] <= 2 or off is None else None if not sch.is_fixed(t[1]) else (off + 0) % 8 if (sch.width(t[1]) * (t[2] - 2)) % 8 == 0 else ((off + sch.width(t[1]) * (t[2] - 2)) % 8)
        if k == "dyn":
            sig.append((path + ("dyn",), 32, off))
            walk(t[1], off, path + ("d",))
            return off if sch.is_fixed(t[1]) and sch.width(t[1]) % 8 == 0 else None
        if k == "opt":
            sig.append((path + ("opt",), 8, off))
            walk(t[1], off, path + ("o",))
            return None
        raise ValueError(t)

    walk(("struct", name), 0, ())
    return repr(sorted(sig, key=repr))
