"""Fixed-size struct shapes and CAN-style bindings (C04, C05, C06, C14, C15, C19)."""

from . import shapes
from .shapes import mk_enum, mk_struct

ENUM_MAXES = [0, 1, 2, 3, 4, 5, 7, 8, 15, 16, 255, 256, 300, 1023, 65535, 70000]


def rand_scalar(r, enums, maxbits=64, floats=True):
    for _ in range(50):
        c = r.random()
        if c < 0.38:
            t = ("u", r.choice(shapes.BOUNDARY_WIDTHS) if r.random() < 0.4 else r.randint(1, 64))
        elif c < 0.70:
            t = ("i", r.choice(shapes.BOUNDARY_WIDTHS) if r.random() < 0.4 else r.randint(1, 64))
        elif c < 0.78 and floats:
            t = ("f32",)
        elif c < 0.84 and floats:
            t = ("f64",)
        elif enums:
            t = ("enum", r.choice(enums))
        else:
            t = ("u", r.randint(1, 16))
        w = {"u": t[1] if t[0] in "ui" else 0, "i": t[1] if t[0] in "ui" else 0, "f32": 32, "f64": 64}.get(t[0], 17)
        if t[0] == "enum" or w <= maxbits:
            return t
    return ("u", max(1, min(maxbits, 8)))


def gen_layout_schema(r, prefix="L"):
    """Enums + fixed-size structs (nesting, arrays of scalars / structs / arrays) + bindings over
    several protocols with signal blocks on scalar non-array fields.  No size limit."""
    decls = []
    enums = []
    for i in range(r.randint(0, 3)):
        n = "%sEn%d" % (prefix, i)
        decls.append(mk_enum(n, r.choice(ENUM_MAXES), r))
        enums.append(n)
    structs = []
    for i in range(r.randint(1, 5)):
        n = "%sSt%d" % (prefix, i)
        ids = r.sample(range(0, 30), r.randint(1, 6))
        fields = []
        for j, fid in enumerate(ids):
            c = r.random()
            if c < 0.55 or not structs and c < 0.7:
                t = rand_scalar(r, enums)
            elif c < 0.70 and structs:
                t = ("struct", r.choice(structs))
            elif c < 0.85:
                t = ("arr", rand_scalar(r, enums), r.randint(1, 4))
            elif c < 0.93 and structs:
                t = ("arr", ("struct", r.choice(structs)), r.randint(1, 3))
            else:
                t = ("arr", ("arr", rand_scalar(r, enums), r.randint(1, 3)), r.randint(1, 3))
            fields.append({"name": "f%d" % j, "id": fid, "type": t})
            if r.random() < 0.2:
                fields[-1]["unit"] = r.choice(["m/s", "C", "V", "rpm", "", "°C", "µV", "mΩ"])
        decls.append(mk_struct(n, fields))
        structs.append(n)
    # a struct whose layout cannot be computed (fixed fields followed by a variable-size one): its
    # bindings make generate() fail part-way, which must not disturb later calls on the same encoder
    if r.random() < 0.5:
        n = "%sVar" % prefix
        fields = [{"name": "v%d" % j, "id": j, "type": rand_scalar(r, enums)} for j in range(r.randint(1, 3))]
        fields.insert(r.randint(1, len(fields)), {"name": "tail", "id": 20, "type": r.choice([("str",), ("dyn", ("u", 8)), ("opt", ("u", 3))])})
        decls.append(mk_struct(n, fields))
        structs.append(n)
    # bindings
    sdecl = {d["name"]: d for d in decls if d["kind"] == "struct"}
    pairs = set()
    for _ in range(r.randint(1, 6)):
        st = r.choice(structs)
        proto = r.choice(["can", "can", "uart", "lin"])
        rename = ("%sB%d" % (prefix, r.randint(0, 99))) if r.random() < 0.35 else None
        name = rename or st
        if (name, proto) in pairs:
            continue
        pairs.add((name, proto))
        items = [("field", "id", r.randint(0, 2047))]
        if r.random() < 0.5:
            items.append(("field", "bus", ("s", r.choice(["can0", "can1", "b"]))))
        blocks = set()
        for f in sdecl[st]["fields"]:
            if f["type"][0] in ("u", "i", "f32", "f64", "enum") and r.random() < 0.4 and f["name"] not in blocks:
                blocks.add(f["name"])
                opts = []
                if r.random() < 0.5:
                    opts.append(("endianess", ("s", r.choice(["big", "little"]))))
                if r.random() < 0.4:
                    opts.append(("mux_count", r.randint(1, 16)))
                    opts.append(("mux_signal", ("s", r.choice(sdecl[st]["fields"])["name"])))
                if r.random() < 0.3 or not opts:
                    opts.append(("scale", r.choice([0.5, 2, 10.0])))
                if r.random() < 0.2:
                    opts.append(("bitstart", r.choice([0, 3, 8, 60, 64, 100])))  # documented key; it does not move the leaf
                items.append(("signal", f["name"], opts))
        # blocks for scalar fields of structs NESTED in the bound struct (named by the inner field's own name)
        for f in sdecl[st]["fields"]:
            if f["type"][0] == "struct" and r.random() < 0.5:
                for g in sdecl[f["type"][1]]["fields"]:
                    if g["type"][0] in ("u", "i", "f32", "f64", "enum") and g["name"] not in blocks and r.random() < 0.5:
                        blocks.add(g["name"])
                        items.append(("signal", g["name"], [("endianess", ("s", r.choice(["big", "little"]))), ("scale", r.choice([0.5, 2]))]))
        r.shuffle(items)
        decls.append({"kind": "impl", "protocol": proto, "type": st, "name": rename, "items": items})
    return decls


def _scalar_width(t, enum_w):
    k = t[0]
    if k in ("u", "i"):
        return t[1]
    if k == "f32":
        return 32
    if k == "f64":
        return 64
    if k == "enum":
        return enum_w[t[1]]
    raise ValueError(t)


def gen_budget_struct(r, name, budget, enums, enum_w, structs, struct_w, fidx, flat=False, floats=True):
    """Struct of fixed-size fields whose total width is <= budget (>= 1).  Field names are unique
    across the whole schema (fidx is a shared counter)."""
    fields = []
    left = budget
    nf = r.randint(1, 8 if flat else 6)
    ids = r.sample(range(0, 40), nf)
    for fid in ids:
        if left <= 0:
            break
        c = r.random()
        t = None
        w = 0
        if not flat and c < 0.15 and structs:
            cand = [s for s in structs if struct_w[s] <= left]
            if cand:
                s = r.choice(cand)
                t, w = ("struct", s), struct_w[s]
        elif not flat and c < 0.30:
            n = r.randint(1, 4)
            for _ in range(10):
                e = rand_scalar(r, enums, maxbits=max(1, left // n), floats=floats)
                ew = _scalar_width(e, enum_w)
                if ew * n <= left:
                    t, w = ("arr", e, n), ew * n
                    break
        elif not flat and c < 0.36 and structs:
            cand = [s for s in structs if 2 * struct_w[s] <= left]
            if cand:
                s = r.choice(cand)
                t, w = ("arr", ("struct", s), 2), 2 * struct_w[s]
        if t is None:
            for _ in range(20):
                e = rand_scalar(r, enums, maxbits=left, floats=floats)
                ew = _scalar_width(e, enum_w)
                if ew <= left:
                    t, w = e, ew
                    break
        if t is None:
            t, w = ("u", 1), 1
        fidx[0] += 1
        fname = "s%d" % fidx[0]
        if fields and r.random() < 0.12:
            # a field named like an earlier one plus a suffix (speed / speed_limit): different fields, each
            # with its own options or none
            fname = "%s_%s%d" % (fields[r.randrange(len(fields))]["name"].split("_")[0], r.choice(["lim", "raw", "ok"]), fidx[0])
        f = {"name": fname, "id": fid, "type": t}
        if r.random() < 0.25:
            f["unit"] = r.choice(["m/s", "C", "V", "rpm", "kg", "%", "°C", "µV", "mΩ"])
        fields.append(f)
        left -= w
    return mk_struct(name, fields), budget - left


def gen_can_schema(r, prefix="C", max_bindings=6, flat=False, buses=True, big_endian=True, mux=True, odd_buses=False,
                   devices=False, floats=True, enum_maxes=None, second_bindings=False, bitstart=False):
    """CAN schema with every bound struct <= 64 bits.  Returns decls."""
    from . import schema as S
    from ..ref import layout as RL

    decls = []
    enums = []
    enum_w = {}
    for i in range(r.randint(0, 3)):
        # some enum names begin with 'i' / 'u': an enum is unsigned whatever it is called
        n = r.choice(["%sEn%d", "%sEn%d", "i%sEn%d", "u%sEn%d", "input%sEn%d"]) % (prefix, i)
        d = mk_enum(n, r.choice(enum_maxes or ENUM_MAXES), r)
        if i == 0 and r.random() < 0.2:
            # enumerators named like the fixed-width types of C (a sample format, say); one enum per schema
            # only, so that no two enums share an enumerator name
            pool = ["U8", "I16", "u32", "F32", "I64", "U64", "i8"]
            d["values"] = [(pool[k % len(pool)] + ("" if k < len(pool) else str(k)), v) for k, (_n, v) in enumerate(d["values"])]
        decls.append(d)
        enums.append(n)
        enum_w[n] = max(1, max(v for _, v in d["values"]).bit_length())
    structs = []
    struct_w = {}
    fidx = [0]
    if not flat:
        for i in range(r.randint(0, 2)):
            n = "%sIn%d" % (prefix, i)
            # (inner structs may hold arrays of scalars: their unrolled elements carry the nesting prefix)
            d, w = gen_budget_struct(r, n, r.randint(1, 24), enums, enum_w, [], {}, fidx, flat=(r.random() < 0.5), floats=False)
            decls.append(d)
            structs.append(n)
            struct_w[n] = w
    nb = r.randint(1, max_bindings)
    ids = r.sample(range(1, 1024), nb)
    if r.random() < 0.25:
        ids[r.randrange(nb)] = 0  # frame id 0 is a valid (and falsy) id
    extra_ids = []
    bus_names = r.sample(["can0", "can1", "pt", "b", "x1"], r.randint(1, 3))
    if odd_buses and r.random() < 0.3:
        # bus names are strings: blanks and punctuation belong to them, and two names that differ only there are two buses
        bus_names = list(r.choice([("body can", "body_can"), ("a:b", "a_b", "a b"), ("x*", "x?", "x_"), ("CAN 1", "CAN-1"), ("p|t", "p_t"), ("Bus<1>", "Bus_1_")]))
    # (device names with an underscore in front of a digit: ecu_2, bms_12v)
    dev_names = r.sample(["ecu", "bms", "inv", "dash", "ecu_2", "bms_12v", "front_ecu"], r.randint(1, 3))
    for i in range(nb):
        n = "%sMsg%d" % (prefix, i)
        budget = r.choice([64, 64, r.randint(1, 64), r.randint(33, 64), r.randint(57, 64)])
        d, w = gen_budget_struct(r, n, budget, enums, enum_w, structs, struct_w, fidx, flat=flat, floats=floats)
        decls.append(d)
        items = [("field", "id", ids[i])]
        if buses and r.random() < 0.7:
            items.append(("field", "bus", ("s", r.choice(bus_names))))
        if devices:
            if r.random() < 0.8:
                items.append(("field", "device", ("s", r.choice(dev_names))))
            if r.random() < 0.6:
                items.append(("field", "period", r.choice([1, 2, 5, 10, 100, 1000])))
        # signal blocks on top-level scalar fields, chosen with knowledge of the (reference) layout
        sch = S.Sch(decls)
        lay = {nm: (st, wd, t) for nm, st, wd, t, _ in RL.layout(sch, n, True)}
        scal = [f for f in d["fields"] if f["type"][0] in ("u", "i", "f32", "f64", "enum")]
        used = set()
        if big_endian:
            for f in scal:
                st, wd, t = lay[f["name"]]
                if st % 8 == 0 and wd in (8, 16, 32, 64) and r.random() < 0.5:
                    items.append(("signal", f["name"], [("endianess", ("s", "big"))]))
                    used.add(f["name"])
        if mux and r.random() < 0.35:
            cands = [f for f in scal if f["type"][0] == "u" and 2 <= f["type"][1] <= 8 and f["name"] not in used]
            others = [f for f in scal if f["name"] not in used]
            if cands and len(others) >= 2:
                m = r.choice(cands)
                for f in r.sample([o for o in others if o is not m], r.randint(1, min(3, len(others) - 1))):
                    # every multiplexed signal has its own count (they share the multiplexer)
                    cnt = r.randint(1, min(16, 1 << m["type"][1]))
                    items.append(("signal", f["name"], [("mux_count", cnt), ("mux_signal", ("s", m["name"]))]))
                    used.add(f["name"])
                # chained multiplexing: a signal that is multiplexed by m is itself the selector of another signal
                inner = [f for f in cands if f is not m and f["name"] in used]
                rest = [o for o in others if o is not m and o["name"] not in used]
                if inner and rest and r.random() < 0.5:
                    m2 = r.choice(inner)
                    f = r.choice(rest)
                    items.append(("signal", f["name"], [("mux_count", r.randint(1, min(16, 1 << m2["type"][1]))), ("mux_signal", ("s", m2["name"]))]))
                    used.add(f["name"])
                used.add(m["name"])
        if bitstart and r.random() < 0.3:
            # the documented 'bitstart' key on a signal block (the layout is fixed by the field ids: the key
            # moves nothing, neither on the wire nor in what describes the wire)
            free = [f for f in scal if f["name"] not in used]
            if free:
                f = r.choice(free)
                st, wd, t = lay[f["name"]]
                items.append(("signal", f["name"], [("bitstart", r.choice([st, 0, 8, 16, 32, 40, 48, max(0, 64 - wd)]))]))
                used.add(f["name"])
        rename = ("%sRen%d" % (prefix, i)) if r.random() < 0.3 else None
        r.shuffle(items)
        decls.append({"kind": "impl", "protocol": "can", "type": n, "name": rename, "items": items})
        if second_bindings and r.random() < 0.35:
            # the same struct bound a second time under another name, with different per-signal options
            items2 = [("field", "id", next(x for x in range(2047, -1, -1) if x not in ids and x not in extra_ids))]
            extra_ids.append(items2[0][2])
            for it in items:
                if it[0] == "field" and it[1] in ("bus", "device", "period"):
                    items2.append(it)
            had_big = {it[1] for it in items if it[0] == "signal" and any(k == "endianess" for k, _ in it[2])}
            for f in scal:
                st, wd, t = lay[f["name"]]
                if big_endian and st % 8 == 0 and wd in (8, 16, 32, 64) and f["name"] not in had_big and r.random() < 0.7:
                    items2.append(("signal", f["name"], [("endianess", ("s", "big"))]))
                elif r.random() < 0.2:
                    items2.append(("signal", f["name"], [("comment", ("s", "second"))]))
            decls.append({"kind": "impl", "protocol": "can", "type": n, "name": "%sAgain%d" % (prefix, i), "items": items2})
    # a non-CAN binding and an unbound struct never show up in CAN output
    if r.random() < 0.4:
        n = "%sOther" % prefix
        d, w = gen_budget_struct(r, n, 40, enums, enum_w, [], {}, fidx, flat=True)
        decls.append(d)
        decls.append({"kind": "impl", "protocol": "uart", "type": n, "name": None, "items": [("field", "id", ids[0])]})
    return decls
