"""Fixed-size struct shapes and CAN-style bindings (C04, C05, C06, C14, C15, C19)."""

from . import shapes
from .shapes import mk_enum, mk_struct

ENUM_MAXES = [0, 1, 2, 3, 4, 5, 7, 8, 15, 16, 255, 256, 300, 1023, 65535, 70000]


def rand_scalar(r, enums, maxbits=64, floats=True):
    for _ in range(50):
        c = r.random()
        if c < 0.38:
            t = ("u", r.choice(shapes.BOUNDARY_WIDTHS) if r.random() < 0.4 else r.randint(1, 64))
        elif c < 0.70:
            t = ("i", r.choice(shapes.BOUNDARY_WIDTHS) if r.random() < 0.4 else r.randint(1, 64))
        elif c < 0.78 and floats:
            t = ("f32",)
        elif c < 0.84 and floats:
            t = ("f64",)
        elif enums:
            t = ("enum", r.choice(enums))
        else:
            t = ("u", r.randint(1, 16))
        w = {"u": t[1] if t[0] in "ui" else 0, "i": t[1] if t[0] in "ui" else 0, "f32": 32, "f64": 64}.get(t[0], 17)
        if t[0] == "enum" or w <= maxbits:
            return t
    return ("u", max(1, min(maxbits, 8)))


def gen_layout_schema(r, prefix="L"):
    """Enums + fixed-size structs (nesting, arrays of scalars / structs / arrays) + bindings over
    several protocols with signal blocks on scalar non-array fields.  No size limit."""
    decls = []
    enums = []
    for i in range(r.randint(0, 3)):
        n = "%sEn%d" % (prefix, i)
        decls.append(mk_enum(n, r.choice(ENUM_MAXES), r))
        enums.append(n)
    structs = []
    for i in range(r.randint(1, 5)):
        n = "%sSt%d" % (prefix, i)
        ids = r.sample(range(0, 30), r.randint(1, 6))
        fields = []
        for j, fid in enumerate(ids):
            c = r.random()
            if c < 0.55 or not structs and c < 0.7:
                t = rand_scalar(r, enums)
            elif c < 0.70 and structs:
                t = ("struct", r.choice(structs))
            elif c < 0.85:
                t = ("arr", rand_scalar(r, enums), r.randint(1, 4))
            elif c < 0.93 and structs:
                t = ("arr", ("struct", r.choice(structs)), r.randint(1, 3))
            else:
                t = ("arr", ("arr", rand_scalar(r, enums), r.randint(1, 3)), r.randint(1, 3))
            fields.append({"name": "f%d" % j, "id": fid, "type": t})
            if r.random() < 0.2:
                fields[-1]["unit"] = r.choice(["m/s", "C", "V", "rpm", ""])
        decls.append(mk_struct(n, fields))
        structs.append(n)
    # bindings
    sdecl = {d["name"]: d for d in decls if d["kind"] == "struct"}
    pairs = set()
    for _ in range(r.randint(1, 6)):
        st = r.choice(structs)
        proto = r.choice(["can", "can", "uart", "lin"])
        rename = ("%sB%d" % (prefix, r.randint(0, 99))) if r.random() < 0.35 else None
        name = rename or st
        if (name, proto) in pairs:
            continue
        pairs.add((name, proto))
        items = [("field", "id", r.randint(0, 2047))]
        if r.random() < 0.5:
            items.append(("field", "bus", ("s", r.choice(["can0", "can1", "b"]))))
        blocks = set()
        for f in sdecl[st]["fields"]:
            if f["type"][0] in ("u", "i", "f32", "f64", "enum") and r.random() < 0.4 and f["name"] not in blocks:
                blocks.add(f["name"])
                opts = []
                if r.random() < 0.5:
                    opts.append(("endianess", ("s", r.choice(["big", "little"]))))
                if r.random() < 0.4:
                    opts.append(("mux_count", r.randint(1, 16)))
                    opts.append(("mux_signal", ("s", r.choice(sdecl[st]["fields"])["name"])))
                if r.random() < 0.3 or not opts:
                    opts.append(("scale", r.choice([0.5, 2, 10.0])))
                items.append(("signal", f["name"], opts))
        r.shuffle(items)
        decls.append({"kind": "impl", "protocol": proto, "type": st, "name": rename, "items": items})
    return decls
