"""Schema batches for the generated-C++ checks: 10-16 structs of deliberately different shapes per
schema so that one compile serves hundreds of (struct, value) cases.  Names are legal in FCP and
C++ and do not collide with the identifiers the templates themselves emit."""

from . import shapes
from .shapes import mk_enum, mk_struct

CARRIER_WIDTHS = [1, 7, 8, 9, 15, 16, 17, 31, 32, 33, 63, 64]
ENUM_MAXES = [1, 2, 5, 8, 16, 32, 100, 200, 255, 256, 300, 65535, 70000]


def gen_batch(r, bi, services=False, can=False, n_random=(6, 9), out_of_order=True):
    p = "B%d" % bi
    decls = []
    enums = []
    for i, mx in enumerate(r.sample(ENUM_MAXES, 4)):
        n = "%sE%d" % (p, i)
        decls.append(mk_enum(n, mx, r))
        enums.append(n)
    structs = []

    def add(name, fields):
        decls.append(mk_struct(name, fields))
        structs.append(name)

    # carrier boundaries, two widths per struct, one sub-byte shifter in front
    ws = r.sample(CARRIER_WIDTHS, 4)
    add(p + "Carr", [("a", 0, ("u", r.randint(1, 7))), ("b", 1, ("u", ws[0])), ("c", 2, ("i", ws[1])), ("d", 3, ("i", ws[2])), ("e", 4, ("u", ws[3]))])
    # enums after a sub-byte field, float/str after sub-byte fields
    add(p + "Enum", [("a", 0, ("u", r.randint(1, 7))), ("e0", 1, ("enum", enums[0])), ("e1", 2, ("enum", enums[1])), ("e2", 3, ("enum", enums[2])), ("z", 4, ("u", 3))])
    add(p + "Flt", [("a", 0, ("u", r.randint(1, 7))), {"name": "f", "id": 1, "type": ("f32",), "unit": r.choice(["°C", "µV", "Ω", "m/s²"])},
                    {"name": "g", "id": 2, "type": ("f64",), "unit": "rad", "range": (-3.25, 3.25)}, ("s", 3, ("str",)), ("z", 4, ("i", 5))])
    # ids declared out of order with asymmetric widths
    add(p + "Ord", [("c", 9, ("u", 5)), ("a", 2, ("u", 11)), ("b", 4, ("i", 3)), ("d", 0, ("f32",))] if out_of_order else [("d", 0, ("f32",)), ("a", 2, ("u", 11)), ("b", 4, ("i", 3)), ("c", 9, ("u", 5))])
    add(p + "In", [("p", 1, ("i", 6)), ("q", 3, ("u", 3))] if not out_of_order else [("q", 3, ("u", 3)), ("p", 1, ("i", 6))])
    # large field ids, two of them equal in their low 16 bits, declared out of id order
    add(p + "BigId", [("hi", 65536 + 7, ("u", 12)), ("lo", 7, ("u", 5)), ("top", (1 << 31) + 3, ("i", 9)), ("mid", 70000, ("u", 16))] if out_of_order
        else [("lo", 7, ("u", 5)), ("hi", 65536 + 7, ("u", 12)), ("mid", 70000, ("u", 16)), ("top", (1 << 31) + 3, ("i", 9))])
    # declared structs whose NAMES look like the rpc wrappers the generator synthesizes (<X>Input / <X>Output)
    add(p + "PedalInput", [("pos", 0, ("u", 10)), ("brake", 1, ("u", 1))])
    add(p + "StatusOutput", [("code", 0, ("i", 7)), ("inner", 1, ("struct", p + "PedalInput"))])
    # field names with leading, trailing and doubled underscores (legal identifiers; name-case helpers see
    # empty words)
    add(p + "Under", [("class_", 0, ("u", 6)), ("_reserved", 1, ("i", 5)), ("torque__nm", 2, ("u", 13)), ("_", 3, ("u", 1))])
    # two fields sharing a field id (accepted by the front end): both travel, in declaration order among equals
    add(p + "DupId", [("t", 0, ("u", 8)), ("temp", 1, ("i", 8)), ("temp_raw", 1, ("u", 16)), ("z", 2, ("u", 8))])
    add(p + "Nest", [("x", 0, ("u", 2)), ("n", 1, ("struct", p + "In")), ("m", 2, ("arr", ("struct", p + "In"), 2)), ("y", 3, ("i", 9))])
    add(p + "Cont", [
        ("a", 0, ("arr", ("u", r.choice([3, 8, 12])), 3)),
        ("b", 1, ("arr", ("enum", enums[3]), 2)),
        ("c", 2, ("arr", ("arr", ("i", 5), 2), 2)),
        ("d", 3, ("arr", ("str",), 2)),
        ("e", 4, ("arr", ("opt", ("u", 9)), 2)),
    ])
    add(p + "Arr2", [
        ("a", 0, ("arr", ("i", 16), 2)),
        ("b", 1, ("arr", ("i", 16), r.choice([3, 4, 5]))),
        ("c", 2, ("arr", ("arr", ("u", 8), 3), 2)),
        ("d", 3, ("arr", ("arr", ("u", 8), 2), 3)),
        ("e", 4, ("dyn", ("arr", ("i", 16), 3))),
    ])
    # a fixed array longer than 2^16 elements (array sizes travel as integers in the reflection)
    add(p + "Long", [("n", 0, ("u", 3)), ("data", 1, ("arr", ("u", r.choice([1, 2])), 65536 + r.randint(1, 9))), ("z", 2, ("i", 5))])
    add(p + "Dyn", [
        ("a", 0, ("u", 3)),
        ("b", 1, ("dyn", ("u", r.choice([1, 8, 13])))),
        ("c", 2, ("dyn", ("struct", p + "In"))),
        ("d", 3, ("dyn", ("str",))),
        ("e", 4, ("dyn", ("enum", enums[0]))),
        ("f", 5, ("dyn", ("dyn", ("i", 4)))),
    ])
    add(p + "Opt", [
        ("a", 0, ("opt", ("u", 5))),
        ("b", 1, ("opt", ("i", 64))),
        ("c", 2, ("opt", ("str",))),
        ("d", 3, ("opt", ("struct", p + "In"))),
        ("e", 4, ("opt", ("arr", ("u", 7), 2))),
        ("f", 5, ("opt", ("f64",))),
        ("g", 6, ("opt", ("dyn", ("u", 8)))),
        ("h", 7, ("opt", ("enum", enums[1]))),
    ])
    # random structs (depth <= 3)
    for i in range(r.randint(*n_random)):
        n = "%sR%d" % (p, i)
        ids = r.sample(range(0, 24), r.randint(1, 5))
        if not out_of_order:
            ids = sorted(ids)
        # (the 65 k element struct is not offered as a building block: nested in containers it makes single
        # commands of several megabytes)
        fields = [("f%d" % j, fid, shapes.rand_type(r, enums, [x for x in structs if x not in (p + "Long", p + "DupId")], 0, 3, True)) for j, fid in enumerate(ids)]
        add(n, fields)
    # a NEGATIVE field id (the front end accepts it): it sorts first; all leaves are whole bytes.  Declared after
    # the random structs so that it is neither a building block nor among the first CAN-bound structs.
    add(p + "NegId", [("a", 0, ("u", 8)), ("flags", -1, ("u", 8)), ("b", 5, ("i", 16))] if out_of_order else [("flags", -1, ("u", 8)), ("a", 0, ("u", 8)), ("b", 5, ("i", 16))])
    # two enums that share enumerator NAMES with different values (scoped per enum)
    decls.append({"kind": "enum", "name": p + "Gear", "values": [("Off", 0), ("Error", 3), ("On", 1)]})
    decls.append({"kind": "enum", "name": p + "Pump", "values": [("Error", 7), ("Off", 2), ("Idle", 0), ("On", 5)]})
    add(p + "Shared", [("g", 0, ("enum", p + "Gear")), ("q", 1, ("enum", p + "Pump")), ("l", 2, ("arr", ("enum", p + "Pump"), 2)), ("o", 3, ("opt", ("enum", p + "Gear"))),
                       ("z", 4, ("u", 3))])
    # a binding of one struct RENAMED to the name of another declared struct (impl uart for DupId as Arr2): a message is
    # looked up among the structs by its struct's name, whatever bindings are called
    decls.append({"kind": "impl", "protocol": "uart", "type": p + "DupId", "name": p + "Arr2", "items": [("field", "id", 77)]})
    decls.append({"kind": "impl", "protocol": "spi", "type": p + "Carr", "name": p + "In", "items": [("field", "port", 1)]})
    can_bindings = []
    if can:
        ids = r.sample(range(1, 2047), 6)
        ids[r.randrange(6)] = 0  # boundary frame ids: 0 (falsy) and 2047 in every batch
        ids[next(i for i in range(6) if ids[i] != 0)] = 2047
        buses = r.sample(["a", "pt", "can", "can0", "b1", "xy"], 2)
        buses.append(buses[0].upper() if buses[0].upper() != buses[0] else "Pt")  # a bus that differs only in letter case
        k = 0
        from .schema import Sch

        sch = Sch(decls)
        for s in list(structs):
            if k >= 6:
                break
            if sch.is_fixed(("struct", s)) and sch.width(("struct", s)) <= 64:
                bus = buses[k % len(buses)]
                decls.append({"kind": "impl", "protocol": "can", "type": s, "name": None, "items": [("field", "id", ids[k]), ("field", "bus", ("s", bus))]})
                can_bindings.append((s, ids[k], bus))
                k += 1
        # a CAN-bound struct whose payload length varies: an Optional that is absent or present
        if k < 9:
            add("OptMsg%d" % bi, [("a", 0, ("u", 8)), ("o", 1, ("opt", ("u", 8))), ("z", 2, ("opt", ("i", 16)))])
            bus = buses[k % len(buses)]
            idv = r.choice([x for x in range(1, 2047) if x not in ids])
            ids.append(idv)
            decls.append({"kind": "impl", "protocol": "can", "type": "OptMsg%d" % bi, "name": None, "items": [("field", "id", idv), ("field", "bus", ("s", bus))]})
            can_bindings.append(("OptMsg%d" % bi, idv, bus))
            k += 1
        # a CAN binding with per-signal options (byte order in both spellings, multiplexing, bitstart): they
        # describe the packed CAN layout of other back ends; the frame carries the canonical bytes regardless
        if k < 10:
            add("Be%d" % bi, [("hi", 0, ("u", 16)), ("mid", 1, ("i", 32)), ("sel", 2, ("u", 4)), ("lo", 3, ("u", 12))])
            bus = buses[k % len(buses)]
            idv = r.choice([x for x in range(1, 2047) if x not in ids])
            ids.append(idv)
            decls.append({"kind": "impl", "protocol": "can", "type": "Be%d" % bi, "name": None, "items": [
                ("field", "id", idv), ("field", "bus", ("s", bus)), ("field", "endianess", ("s", "big")),
                ("signal", "hi", [("endianess", ("s", "big"))]),
                ("signal", "mid", [("endianness", ("s", "big")), ("endianess", ("s", "big"))]),
                ("signal", "lo", [("mux_count", 3), ("mux_signal", ("s", "sel")), ("bitstart", 0)])]})
            can_bindings.append(("Be%d" % bi, idv, bus))
            k += 1
        # dedicated small CAN messages with names of 1..12 characters
        for nm, w in (("M", 5), ("Msg%dAbcdefgh" % bi, 12), ("Cn%d" % bi, 33)):
            if k >= 13:
                break
            add(nm, [("v", 0, ("u", w)), ("w", 1, ("i", min(64 - w, 11)))])
            bus = buses[k % len(buses)]
            idv = r.choice([x for x in range(0, 2048) if x not in ids])
            if nm == "M":
                # bus names that coincide with the spellings generated code uses for "no bus" / "not found"
                bus = ["unkn", "None", "null", bus][bi % 4]
            if nm.startswith("Cn") and can_bindings:
                # the SAME frame id as the first binding, on another bus
                bus = next(b_ for b_ in buses if b_ != can_bindings[0][2])
                idv = can_bindings[0][1]
            ids.append(idv)
            decls.append({"kind": "impl", "protocol": "can", "type": nm, "name": None, "items": [("field", "id", idv), ("field", "bus", ("s", bus))]})
            can_bindings.append((nm, idv, bus))
            k += 1
    non_can = None
    if can and can_bindings:
        # a LATER binding of another protocol for a struct that already has a CAN binding, under the same
        # (default) name: bindings are identified by (name, protocol)
        s0 = can_bindings[r.randrange(min(3, len(can_bindings)))][0]
        nc_bus = can_bindings[0][2]
        nc_id = next(x for x in range(300, 2047) if all(x != i for _, i, _ in can_bindings))
        decls.append({"kind": "impl", "protocol": r.choice(["uart", "lin"]), "type": s0, "name": None, "items": [("field", "id", nc_id), ("field", "bus", ("s", nc_bus))]})
        non_can = (nc_id, nc_bus)
    nobus = None
    if can:
        # a CAN binding that declares no bus (outside C18's quantifier, but part of real schemas): frames
        # carrying its id on any named bus match no (id, bus) pair
        add("NoBus%d" % bi, [("v", 0, ("u", 8))])
        nb_id = next(x for x in range(1000, 2047) if all(x != i for _, i, _ in can_bindings))
        decls.append({"kind": "impl", "protocol": "can", "type": "NoBus%d" % bi, "name": None, "items": [("field", "id", nb_id)]})
        nobus = nb_id
    if services:
        # every payload struct plays exactly one role in one service (see known finding K7)
        a, b, c, d = p + "In", p + "Carr", p + "Enum", p + "Ord"
        decls.append({"kind": "service", "name": p + "Svc", "id": r.randint(0, 200), "methods": [
            {"name": "Get", "id": r.randint(0, 100), "input": a, "output": b},
            {"name": "Put", "id": r.randint(101, 254), "input": c, "output": d},
            {"name": "Sync", "id": 255, "input": p + "Flt", "output": d},  # two methods may share an output struct
        ]})
    if nobus is not None:
        can_bindings.append(("<no-bus>", nobus, None))
    if can and non_can is not None:
        # (id, bus) of a binding of ANOTHER protocol: no CAN frame matches it
        can_bindings.append(("<non-can>", non_can[0], non_can[1]))
    return decls, can_bindings
