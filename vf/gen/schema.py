"""Plain-data schema descriptions and everything derived from them WITHOUT
importing fcp: FCP text (with formatting variants), the expected tree
dictionary, lookup helpers used by the reference models.

Type trees (tuples):
  ("u", n) ("i", n) ("f32",) ("f64",) ("str",) ("enum", name) ("struct", name)
  ("arr", T, n) ("dyn", T) ("opt", T)

Declarations (dicts, in source order):
  {"kind": "enum", "name": N, "values": [(name, int), ...]}
  {"kind": "struct", "name": N, "fields": [{"name", "id", "type", "unit"?, "range"?: (lo, hi)}]}
  {"kind": "impl", "protocol": P, "type": S, "name": N or None,
   "items": [("field", key, value) | ("signal", name, [(key, value), ...])]}
  {"kind": "service", "name": N, "id": int, "methods": [{"name", "id", "input", "output"}]}
  {"kind": "device", "name": N, "fields": [(key, value), ...]}
  {"kind": "mod", "path": [segments]}           (only printed; C20 handles the files)

Extension values: int | float | ("id", name) | ("s", text) | [values]
"""

import json

FCP_KEYWORDS = [
    "version", "struct", "enum", "impl", "for", "as", "signal", "service",
    "method", "returns", "device", "mod", "Optional", "unit", "range",
]
BUILTIN_TYPE_WORDS = ["str", "f32", "f64"]


# --------------------------------------------------------------------- types
def ptype(t):
    k = t[0]
    if k in ("u", "i"):
        # an optional third element is the width as WRITTEN in the source ("u05"): same type, other spelling
        return t[2] if len(t) > 2 else "%s%d" % (k, t[1])
    if k in ("f32", "f64", "str"):
        return k
    if k in ("enum", "struct"):
        return t[1]
    if k == "arr":
        return "[%s, %d]" % (ptype(t[1]), t[2])
    if k == "dyn":
        return "[%s]" % ptype(t[1])
    if k == "opt":
        return "Optional[%s]" % ptype(t[1])
    raise ValueError(t)


def type_tokens(t):
    """Token list of a type (atomic tokens such as 'u8' are kept whole)."""
    k = t[0]
    if k in ("u", "i", "f32", "f64", "str", "enum", "struct"):
        return [ptype(t)]
    if k == "arr":
        return ["["] + type_tokens(t[1]) + [",", str(t[2]), "]"]
    if k == "dyn":
        return ["["] + type_tokens(t[1]) + ["]"]
    if k == "opt":
        return ["Optional", "["] + type_tokens(t[1]) + ["]"]
    raise ValueError(t)


def dtype(t):
    """Image of a type in FcpV2.to_dict()."""
    k = t[0]
    if k == "u":
        return {"name": ptype(t), "type": "unsigned"}
    if k == "i":
        return {"name": ptype(t), "type": "signed"}
    if k == "f32":
        return {"name": "f32", "type": "float"}
    if k == "f64":
        return {"name": "f64", "type": "double"}
    if k == "str":
        return {"type": "str"}
    if k == "struct":
        return {"name": t[1], "type": "Struct"}
    if k == "enum":
        return {"name": t[1], "type": "Enum"}
    if k == "arr":
        return {"underlying_type": dtype(t[1]), "size": t[2], "type": "Array"}
    if k == "dyn":
        return {"underlying_type": dtype(t[1]), "type": "DynamicArray"}
    if k == "opt":
        return {"underlying_type": dtype(t[1]), "type": "Optional"}
    raise ValueError(t)


def type_refs(t):
    k = t[0]
    if k in ("enum", "struct"):
        return [(k, t[1])]
    if k in ("arr", "dyn", "opt"):
        return type_refs(t[1])
    return []


def type_depth(t):
    return 1 + (type_depth(t[1]) if t[0] in ("arr", "dyn", "opt") else 0)


def type_kinds(t):
    """Constructor path, e.g. ('opt','arr','u')."""
    return (t[0],) + (type_kinds(t[1]) if t[0] in ("arr", "dyn", "opt") else ())


# ------------------------------------------------------------- schema lookup
class Sch:
    """Lookup view over a declaration list."""

    def __init__(self, decls):
        self.decls = decls
        self.enums = {}
        self.structs = {}
        for d in decls:
            if d["kind"] == "enum":
                self.enums.setdefault(d["name"], d["values"])
            elif d["kind"] == "struct":
                self.structs.setdefault(d["name"], d["fields"])

    def fields_by_id(self, name):
        return sorted(self.structs[name], key=lambda f: f["id"])

    def enum_width(self, name):
        m = max(v for _, v in self.enums[name])
        return max(1, m.bit_length())

    def is_fixed(self, t):
        k = t[0]
        if k in ("u", "i", "f32", "f64", "enum"):
            return True
        if k in ("str", "dyn", "opt"):
            return False
        if k == "arr":
            return self.is_fixed(t[1])
        if k == "struct":
            return all(self.is_fixed(f["type"]) for f in self.structs[t[1]])
        raise ValueError(t)

    def width(self, t):
        """Bit width of a fixed-size type."""
        k = t[0]
        if k in ("u", "i"):
            return t[1]
        if k == "f32":
            return 32
        if k == "f64":
            return 64
        if k == "enum":
            return self.enum_width(t[1])
        if k == "arr":
            return t[2] * self.width(t[1])
        if k == "struct":
            return sum(self.width(f["type"]) for f in self.structs[t[1]])
        raise ValueError("no fixed width: %r" % (t,))

    def impls(self, protocol=None):
        return [
            d
            for d in self.decls
            if d["kind"] == "impl" and (protocol is None or d["protocol"] == protocol)
        ]


def impl_name(d):
    return d["name"] or d["type"]


def impl_fields(d):
    out = {}
    for it in d["items"]:
        if it[0] == "field":
            out[it[1]] = it[2]
    return out


def impl_signals(d):
    return [(it[1], it[2]) for it in d["items"] if it[0] == "signal"]


# -------------------------------------------------------------------- values
def pval(v):
    if isinstance(v, list):
        return "[" + ", ".join(pval(x) for x in v) + "]"
    if isinstance(v, tuple) and v[0] == "num":
        return v[2]  # a number with a particular spelling: ("num", value, "0042")
    if isinstance(v, tuple):
        return v[1] if v[0] == "id" else '"' + v[1] + '"'
    if isinstance(v, float):
        return repr(v)
    return str(v)


def value_tokens(v):
    if isinstance(v, list):
        out = ["["]
        for i, x in enumerate(v):
            if i:
                out.append(",")
            out += value_tokens(x)
        return out + ["]"]
    return [pval(v)]


def dval(v):
    """Python image of an extension value after parsing."""
    if isinstance(v, list):
        return [dval(x) for x in v]
    if isinstance(v, tuple):
        return v[1]
    return v


# ------------------------------------------------------------------- printer
class Style:
    """Formatting variant.  rng=None gives the plain canonical layout."""

    GAPS = [" ", " ", "\n", "\t", "  ", " \n ", " /*c*/ ", "/* a\n b */", " // x\n", "\n\n", "\t\t", "/**/"]

    def __init__(self, rng=None, comments=True):
        self.rng = rng
        self.comments = comments

    def gap(self, required):
        """Separator between two tokens; required=True when both are word-like."""
        r = self.rng
        if r is None:
            return " " if required else ""
        if not required and r.random() < 0.45:
            return ""
        n = 1 if r.random() < 0.8 else 2
        out = ""
        for _ in range(n):
            g = r.choice(self.GAPS)
            if not self.comments and "/" in g:
                g = " "
            out += g
        return out

    def flag(self, p=0.5, default=True):
        return default if self.rng is None else self.rng.random() < p


def _wordy(tok):
    c = tok[:1]
    return c.isalnum() or c == "_" or c == '"' or c == "-" or c == "+"


def _wordy_end(tok):
    c = tok[-1:]
    return c.isalnum() or c == "_" or c == '"' or c == "."


def join_tokens(tokens, style):
    """Join tokens with style-chosen gaps.  A token may be ('nl',) for a plain newline hint."""
    out = []
    prev = None
    for tok in tokens:
        if tok == ("nl",):
            out.append("\n")
            prev = None
            continue
        if prev is not None:
            need = _wordy_end(prev) and _wordy(tok)
            g = style.gap(need)
            # a '/' directly followed by '/' or '*' would open a comment
            if g == "" and prev.endswith("/") and tok[:1] in ("/", "*"):
                g = " "
            out.append(g)
        out.append(tok)
        prev = tok
    return "".join(out)


def decl_tokens(d, style):
    k = d["kind"]
    t = []
    if k == "struct":
        t += ["struct", d["name"], "{"]
        for f in d["fields"]:
            t += [f["name"], "@", str(f["id"]), ":"] + type_tokens(f["type"])
            params = []
            if "unit" in f:
                params.append(["unit", "(", '"%s"' % f["unit"], ")"])
            if "range" in f:
                lo, hi = f["range"]
                p = ["range", "(", pval(lo), ",", pval(hi)]
                if style.flag(0.2, False):
                    p.append(",")
                p.append(")")
                params.append(p)
            if style.rng is not None and len(params) == 2 and style.rng.random() < 0.5:
                params.reverse()
            if params:
                if style.flag(0.75, True):
                    t.append("|")
                for i, p in enumerate(params):
                    t += p
                    if i + 1 < len(params) and style.flag(0.5, False):
                        t.append("|")
                if style.flag(0.15, False):
                    t.append("|")
            elif style.flag(0.1, False):
                t.append("|")
            t.append(",")
        t.append("}")
    elif k == "enum":
        t += ["enum", d["name"], "{"]
        for n, v in d["values"]:
            t += [n, "=", str(v), ","]
        t.append("}")
    elif k == "impl":
        t += ["impl", d["protocol"], "for", d["type"]]
        if d["name"]:
            # 'impl p for S as {' reads 'as' as the keyword: a binding *named* "as" needs it spelled out
            # (names that merely BEGIN with "as" are written without the keyword more often than not)
            if d["name"] == "as" or style.flag(0.3 if d["name"].startswith("as") else 0.8, True):
                t.append("as")
            t.append(d["name"])
        t.append("{")
        for it in d["items"]:
            if it[0] == "field":
                t += [it[1], ":"] + value_tokens(it[2]) + [","]
            else:
                t += ["signal", it[1], "{"]
                for kk, vv in it[2]:
                    t += [kk, ":"] + value_tokens(vv) + [","]
                t += ["}", ","]
        t.append("}")
    elif k == "service":
        t += ["service", d["name"], "@", str(d["id"]), "{"]
        for m in d["methods"]:
            t += ["method", m["name"], "(", m["input"], ")", "@", str(m["id"]), "returns", m["output"], ","]
        t.append("}")
    elif k == "device":
        t += ["device", d["name"], "{"]
        for kk, vv in d["fields"]:
            t += [kk, ":"] + value_tokens(vv) + [","]
        t.append("}")
    elif k == "mod":
        t.append("mod")
        for i, seg in enumerate(d["path"]):
            if i:
                t.append(".")
            t.append(seg)
        t.append(";")
    else:
        raise ValueError(k)
    return t


def print_schema(decls, style=None, version="3"):
    style = style or Style()
    toks = ["version", ":", '"%s"' % version]
    if style.rng is None:
        toks.append(("nl",))
    for d in decls:
        toks += decl_tokens(d, style)
        if style.rng is None:
            toks.append(("nl",))
    text = join_tokens(toks, style)
    if style.rng is not None and style.rng.random() < 0.5:
        text = style.gap(False) + text + style.gap(False)
    return text


# ------------------------------------------------------------- expected tree
def expected_dict(decls):
    structs, enums, impls, services, devices = [], [], [], [], []
    for d in decls:
        k = d["kind"]
        if k == "struct":
            fs = []
            for f in d["fields"]:
                x = {"name": f["name"], "field_id": f["id"], "type": dtype(f["type"])}
                if "unit" in f:
                    x["unit"] = f["unit"]
                if "range" in f:
                    x["min_value"] = float(f["range"][0])
                    x["max_value"] = float(f["range"][1])
                fs.append(x)
            structs.append({"name": d["name"], "fields": fs})
            impls.append(
                {"name": d["name"], "protocol": "default", "type": d["name"], "fields": {}, "signals": []}
            )
        elif k == "enum":
            enums.append(
                {"name": d["name"], "enumeration": [{"name": n, "value": v} for n, v in d["values"]]}
            )
        elif k == "impl":
            impls.append(
                {
                    "name": impl_name(d),
                    "protocol": d["protocol"],
                    "type": d["type"],
                    "fields": {kk: dval(vv) for kk, vv in impl_fields(d).items()},
                    "signals": [
                        {"name": n, "fields": {kk: dval(vv) for kk, vv in fl}}
                        for n, fl in impl_signals(d)
                    ],
                }
            )
        elif k == "service":
            services.append(
                {
                    "name": d["name"],
                    "id": d["id"],
                    "methods": [
                        {"name": m["name"], "id": m["id"], "input": m["input"], "output": m["output"]}
                        for m in d["methods"]
                    ],
                }
            )
        elif k == "device":
            devices.append({"name": d["name"], "fields": {kk: dval(vv) for kk, vv in d["fields"]}})
    return {
        "structs": structs,
        "enums": enums,
        "impls": impls,
        "services": services,
        "devices": devices,
        "version": "3.0",
    }


def canon(x):
    return json.dumps(x, sort_keys=True)
