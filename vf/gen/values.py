"""Value generators over type trees (boundary-first).  No fcp imports."""

import math
import struct

F32_EDGE = [0x00000000, 0x80000000, 0x3FC00000, 0xBF800000, 0x7F800000, 0xFF800000,
            0x00000001, 0x7F7FFFFF, 0x00800000, 0x3EAAAAAB, 0x7FC00000, 0xFFC00001,
            0x40000000, 0xC0800000, 0x42C80000, 0x49742400]  # ..., 2.0, -4.0, 100.0, 1000000.0
F64_EDGE = [0, 1 << 63, 0x3FF8000000000000, 0xBFF0000000000000, 0x7FF0000000000000,
            0xFFF0000000000000, 1, 0x7FEFFFFFFFFFFFFF, 0x0010000000000000,
            0x3FD5555555555555, 0x7FF8000000000000, 0xFFF8000000000001,
            0x4000000000000000, 0xC010000000000000, 0x4059000000000000, 0x412E848000000000]  # 2.0, -4.0, 100.0, 1e6


def f32_from_bits(b):
    return struct.unpack("<f", struct.pack("<I", b))[0]


def f64_from_bits(b):
    return struct.unpack("<d", struct.pack("<Q", b))[0]


def _is_snan32(b):
    return (b & 0x7F800000) == 0x7F800000 and (b & 0x007FFFFF) != 0 and not (b & 0x00400000)


def _is_snan64(b):
    return (
        (b & 0x7FF0000000000000) == 0x7FF0000000000000
        and (b & 0x000FFFFFFFFFFFFF) != 0
        and not (b & 0x0008000000000000)
    )


def gen_f32(r, finite=False):
    while True:
        b = r.choice(F32_EDGE) if r.random() < 0.5 else r.getrandbits(32)
        if _is_snan32(b):
            continue
        v = f32_from_bits(b)
        if finite and not math.isfinite(v):
            continue
        return v


def gen_f64(r, finite=False):
    while True:
        b = r.choice(F64_EDGE) if r.random() < 0.5 else r.getrandbits(64)
        if _is_snan64(b):
            continue
        v = f64_from_bits(b)
        if finite and not math.isfinite(v):
            continue
        return v


def uint_edges(n):
    return sorted({0, 1, (1 << n) - 1, (1 << n) >> 1, ((1 << n) >> 1) - 1 if n > 1 else 0})


def sint_edges(n):
    lo, hi = -(1 << (n - 1)), (1 << (n - 1)) - 1
    return sorted({lo, -1, 0, 1 if hi >= 1 else 0, hi, lo + 1 if n > 1 else lo})


def asym_bits(n):
    """Asymmetric pattern 0b1011 0010 1110 ... truncated to n bits (never a palindrome)."""
    pat = 0x0102030405060708B2
    return pat & ((1 << n) - 1)


STR_LENS = [0, 1, 2, 3, 5, 8, 17, 40]
DYN_LENS = [0, 1, 2, 3, 7]


def gen_str(r, maxlen=None, printable=False):
    n = r.choice(STR_LENS)
    if maxlen is not None:
        n = min(n, maxlen)
    if r.random() < 0.2:
        # text outside 7-bit ASCII (2-, 3- and 4-byte UTF-8 sequences): characters != bytes
        return r.choice(NON_ASCII)[: maxlen if maxlen is not None else None]
    lo, hi = (32, 126) if printable else (0, 127)
    return "".join(chr(r.randint(lo, hi)) for _ in range(n))


NON_ASCII = ["\u00b0C", "\u00e9a", "\u00b5V", "m\u03a9", "\u03a9", "m/s\u00b2", "a\u00b0", "\u20acuro", "\u65e5\u672c\u8a9e", "\u00df", "\U0001f600", "x\U0001f600y",
             "\u00e9" * 9, "na\u00efve caf\u00e9"]


def gen_value(r, sch, t, mode="random", opts=None):
    """mode: 'random' | 'min' | 'max' | 'zero' | 'asym'.  opts: finite(bool), printable(bool),
    big(bool) allows long strings/arrays."""
    opts = opts or {}
    k = t[0]
    if k == "u":
        n = t[1]
        if mode == "min" or mode == "zero":
            return 0
        if mode == "max":
            return (1 << n) - 1
        if mode == "asym":
            return asym_bits(n)
        return r.choice(uint_edges(n)) if r.random() < 0.4 else r.getrandbits(n)
    if k == "i":
        n = t[1]
        if mode == "min":
            return -(1 << (n - 1))
        if mode == "max":
            return (1 << (n - 1)) - 1
        if mode == "zero":
            return 0
        if mode == "asym":
            v = asym_bits(n)
            return v - (1 << n) if v >> (n - 1) else v
        return r.choice(sint_edges(n)) if r.random() < 0.4 else r.getrandbits(n) - (1 << (n - 1))
    if k == "f32":
        if mode == "zero":
            return 0.0
        if mode == "min":
            return f32_from_bits(0xFF7FFFFF)
        if mode == "max":
            return f32_from_bits(0x7F7FFFFF)
        if mode == "asym":
            return f32_from_bits(0x4049 << 16 | 0x0FDB)
        return gen_f32(r, opts.get("finite", False))
    if k == "f64":
        if mode == "zero":
            return 0.0
        if mode == "min":
            return f64_from_bits(0xFFEFFFFFFFFFFFFF)
        if mode == "max":
            return f64_from_bits(0x7FEFFFFFFFFFFFFF)
        if mode == "asym":
            return f64_from_bits(0x400921FB54442D18)
        return gen_f64(r, opts.get("finite", False))
    if k == "str":
        if mode in ("min", "zero"):
            return ""
        if mode == "max":
            return "".join(chr(32 + (i * 7) % 95) for i in range(300 if opts.get("big") else 40))
        if mode == "asym":
            return "h\u00e9llo, wire \u00b0C!"
        return gen_str(r, printable=opts.get("printable", False))
    if k == "enum":
        vals = [v for _, v in sch.enums[t[1]]]
        if mode in ("min", "zero"):
            return min(vals)
        if mode in ("max", "asym"):
            return max(vals)
        return r.choice(vals)
    if k == "struct":
        return {f["name"]: gen_value(r, sch, f["type"], mode, opts) for f in sch.structs[t[1]]}
    if k == "arr":
        return [gen_value(r, sch, t[1], mode, opts) for _ in range(t[2])]
    if k == "dyn":
        if mode in ("min", "zero"):
            return []
        if mode == "max":
            n = 200 if opts.get("big") and t[1][0] in ("u", "i", "enum") else 7
        elif mode == "asym":
            n = 3
        else:
            n = r.choice(DYN_LENS)
        return [gen_value(r, sch, t[1], mode if mode != "min" else "random", opts) for _ in range(n)]
    if k == "opt":
        if mode in ("min", "zero"):
            return None
        if mode in ("max", "asym"):
            return gen_value(r, sch, t[1], mode, opts)
        return None if r.random() < 0.3 else gen_value(r, sch, t[1], mode, opts)
    raise ValueError(t)


def struct_values(r, sch, name, n_random, opts=None):
    """Boundary-first list of values for one struct."""
    t = ("struct", name)
    out = [gen_value(r, sch, t, m, opts) for m in ("zero", "min", "max", "asym")]
    out += [gen_value(r, sch, t, "random", opts) for _ in range(n_random)]
    return out


def value_class(t_kinds, v):
    """Coarse class of a leaf value used in distinct-case signatures."""
    if v is None:
        return "none"
    if isinstance(v, bool):
        return "bool"
    if isinstance(v, int):
        return "neg" if v < 0 else ("zero" if v == 0 else "pos")
    if isinstance(v, float):
        if v != v:
            return "nan"
        if v in (float("inf"), float("-inf")):
            return "inf"
        return "f0" if v == 0 else "f"
    if isinstance(v, str):
        return "s%d" % min(len(v), 9)
    if isinstance(v, list):
        return "l%d" % min(len(v), 9)
    if isinstance(v, dict):
        return "d"
    return "?"
