"""A minimal generator plug-in used by C10 only: it registers no checks and returns a fixed set of
results that the bundled generators happen not to produce (a file with empty contents, a file several
directories below the output directory, a file without a trailing newline, a print result), so that the
write path of fcp.codegen is observed on them too."""

from pathlib import Path

from fcp.codegen import CodeGenerator


class Generator(CodeGenerator):
    def generate(self, fcp, ctx):
        out = Path(ctx.get("output"))
        names = ",".join(sorted(s.name for s in fcp.structs))
        return [
            {"type": "file", "path": out / "probe.txt", "contents": "structs: %s\n" % names},
            {"type": "file", "path": out / "empty.marker", "contents": ""},
            {"type": "file", "path": out / "a" / "b" / "deep.txt", "contents": "nested"},
            {"type": "print", "contents": "vfprobe: %d structs" % len(fcp.structs)},
        ]

    def register_checks(self, verifier):
        pass
