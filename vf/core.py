"""Run bookkeeping shared by every property driver: counters, distinct
signatures, samples, violations, known findings, evidence, verdict.

A driver only talks to a Run object; vf.main turns one or many (sharded) Run
objects into the evidence file, the stdout lines and the exit status.
"""

import collections
import json
import math
import os
import random
import struct
import time

from . import env

MAX_REPLAYS = 25
MAX_SAMPLES = 6


# ---------------------------------------------------------------- tagged json
def tag(x):
    """JSON-able image of a python value that loads back exactly (untag)."""
    if isinstance(x, bool) or x is None or isinstance(x, (int, str)):
        return x
    if isinstance(x, float):
        return {"$f64": "%016x" % struct.unpack("<Q", struct.pack("<d", x))[0]}
    if isinstance(x, (bytes, bytearray)):
        return {"$hex": bytes(x).hex()}
    if isinstance(x, tuple):
        return {"$t": [tag(v) for v in x]}
    if isinstance(x, (list,)):
        return [tag(v) for v in x]
    if isinstance(x, (set, frozenset)):
        return {"$set": sorted((tag(v) for v in x), key=repr)}
    if isinstance(x, dict):
        if all(isinstance(k, str) and not k.startswith("$") for k in x):
            return {k: tag(v) for k, v in x.items()}
        return {"$d": [[tag(k), tag(v)] for k, v in x.items()]}
    return {"$repr": repr(x)}


def untag(x):
    if isinstance(x, list):
        return [untag(v) for v in x]
    if isinstance(x, dict):
        if len(x) == 1:
            ((k, v),) = x.items()
            if k == "$f64":
                return struct.unpack("<d", struct.pack("<Q", int(v, 16)))[0]
            if k == "$hex":
                return bytes.fromhex(v)
            if k == "$t":
                return tuple(untag(i) for i in v)
            if k == "$set":
                return set(untag(i) for i in v)
            if k == "$d":
                return {untag(a): untag(b) for a, b in v}
            if k == "$repr":
                return v
        return {k: untag(v) for k, v in x.items()}
    return x


def show(x, limit=4000):
    """Human-readable JSON-able image for evidence samples (lossy is fine)."""
    if isinstance(x, float):
        return x if math.isfinite(x) else repr(x)
    if isinstance(x, (bytes, bytearray)):
        return bytes(x).hex()
    if isinstance(x, (tuple, list)):
        return [show(v) for v in x]
    if isinstance(x, (set, frozenset)):
        return sorted((show(v) for v in x), key=repr)
    if isinstance(x, dict):
        return {str(k): show(v) for k, v in x.items()}
    if isinstance(x, str):
        return x if len(x) <= limit else x[:limit] + "...(%d chars)" % len(x)
    if isinstance(x, bool) or x is None or isinstance(x, int):
        return x
    return repr(x)


# ------------------------------------------------------------ known findings
def load_known_findings(path=None):
    """{property: {key: text}} for 'finding:' lines, and the list of 'fixed:' lines."""
    path = path or os.path.join(env.VERIF, "known_findings.txt")
    findings = collections.defaultdict(dict)
    fixed = []
    if not os.path.exists(path):
        return findings, fixed
    for line in open(path):
        line = line.strip()
        if not line or line.startswith("#"):
            continue
        if line.startswith("finding:"):
            rest = line[len("finding:") :].split()
            prop = key = None
            text = []
            for w in rest:
                if prop is None and w.startswith("property="):
                    prop = w[9:]
                elif key is None and w.startswith("key="):
                    key = w[4:]
                else:
                    text.append(w)
            if prop and key:
                findings[prop][key] = " ".join(text)
        elif line.startswith("fixed:"):
            fixed.append(line)
    return findings, fixed


# ------------------------------------------------------------------- the run
class Run:
    def __init__(self, pid, tier, seed, shard=0, nshards=1):
        self.pid = pid
        self.tier = tier
        self.seed = seed
        self.shard = shard
        self.nshards = nshards
        self.t0 = time.time()
        self.evaluations = 0
        self.sigs = set()
        self.samples = []
        self.counters = collections.Counter()
        self.violations = []  # [{"what":..., "case":...}] capped
        self.nviol = 0
        self.known = {}  # key -> {"count": n, "example": ...}
        self.inconclusive = []
        self.extra = {}
        self.exhaustive = None

    # -- deterministic randomness: every stream is addressable by name
    def rng(self, *stream):
        return random.Random(
            "%d/%s/%s" % (self.seed, self.pid, "/".join(str(s) for s in stream))
        )

    def rng_ns(self, ns, *stream):
        """Stream shared between properties (same seed => same cases)."""
        return random.Random("%d/%s/%s" % (self.seed, ns, "/".join(str(s) for s in stream)))

    def mine(self, index):
        return index % self.nshards == self.shard

    @property
    def quick(self):
        return self.tier == "quick"

    def pick(self, quick, thorough):
        return quick if self.tier == "quick" else thorough

    # -- bookkeeping
    def case(self, sig=None, sample=None, n=1):
        self.evaluations += n
        if sig is not None:
            self.sigs.add(sig if isinstance(sig, str) else repr(sig))
        if sample is not None and len(self.samples) < MAX_SAMPLES:
            self.samples.append(show(sample))

    def sample(self, sample):
        if len(self.samples) < MAX_SAMPLES:
            self.samples.append(show(sample))

    def count(self, name, n=1):
        self.counters[name] += n

    def violation(self, what, case):
        self.nviol += 1
        if len(self.violations) < MAX_REPLAYS:
            self.violations.append({"what": what, "case": tag(case)})

    def known_finding(self, key, what=None, case=None):
        k = self.known.setdefault(key, {"count": 0, "example": None})
        k["count"] += 1
        if k["example"] is None:
            k["example"] = show({"what": what, "case": case})

    def inconclusive_because(self, reason):
        if reason not in self.inconclusive:
            self.inconclusive.append(reason)

    def require(self, *counter_names):
        """Deciding monitors that were never evaluated make the run inconclusive."""
        for c in counter_names:
            if self.counters.get(c, 0) <= 0:
                self.inconclusive_because("monitor/counter '%s' was never reached" % c)

    # -- (de)serialisation for shards
    def dump(self):
        return {
            "pid": self.pid,
            "tier": self.tier,
            "seed": self.seed,
            "evaluations": self.evaluations,
            "sigs": sorted(self.sigs),
            "samples": self.samples,
            "counters": dict(self.counters),
            "violations": self.violations,
            "nviol": self.nviol,
            "known": self.known,
            "inconclusive": self.inconclusive,
            "extra": self.extra,
            "exhaustive": self.exhaustive,
        }

    def merge(self, d):
        self.evaluations += d["evaluations"]
        self.sigs.update(d["sigs"])
        for s in d["samples"]:
            if len(self.samples) < MAX_SAMPLES:
                self.samples.append(s)
        self.counters.update(d["counters"])
        for v in d["violations"]:
            if len(self.violations) < MAX_REPLAYS:
                self.violations.append(v)
        self.nviol += d["nviol"]
        for k, v in d["known"].items():
            mine = self.known.setdefault(k, {"count": 0, "example": None})
            mine["count"] += v["count"]
            if mine["example"] is None:
                mine["example"] = v["example"]
        for r in d["inconclusive"]:
            self.inconclusive_because(r)
        for k, v in d["extra"].items():
            if isinstance(v, (int, float)) and isinstance(self.extra.get(k), (int, float)):
                self.extra[k] = max(self.extra[k], v) if k.startswith("max_") else self.extra[k] + v
            elif isinstance(v, dict) and isinstance(self.extra.get(k), dict):
                for kk, vv in v.items():
                    if isinstance(vv, (int, float)) and isinstance(
                        self.extra[k].get(kk), (int, float)
                    ):
                        self.extra[k][kk] += vv
                    else:
                        self.extra[k].setdefault(kk, vv)
            elif isinstance(v, list) and isinstance(self.extra.get(k), list):
                self.extra[k] = (self.extra[k] + v)[:50]
            else:
                self.extra.setdefault(k, v)
        if d.get("exhaustive") is False:
            self.exhaustive = False
        elif d.get("exhaustive") is True and self.exhaustive is None:
            self.exhaustive = True


# ------------------------------------------------------------------ verdicts
def finish(run, mod):
    """Write evidence + replay files, print the verdict lines, return exit status."""
    pid = run.pid
    findings, _fixed = load_known_findings()
    listed = findings.get(pid, {})

    # a known-finding key the driver recognised but the committed file does not list
    # is not excused: it is a violation like any other.
    for key, info in list(run.known.items()):
        if key not in listed:
            run.violation(
                "failure classified as '%s' which known_findings.txt does not list" % key,
                info["example"],
            )
            del run.known[key]

    replay_dir = os.path.join(env.VERIF, "out", "replay", pid)
    os.makedirs(replay_dir, exist_ok=True)
    for f in os.listdir(replay_dir):
        try:
            os.remove(os.path.join(replay_dir, f))
        except OSError:
            pass
    replay_paths = []
    for i, v in enumerate(run.violations):
        p = os.path.join(replay_dir, "case%03d.json" % i)
        with open(p, "w") as f:
            json.dump(
                {"property": pid, "seed": run.seed, "tier": run.tier, **v}, f, indent=1
            )
        replay_paths.append(p)

    wall = time.time() - run.t0
    coverage = {
        "evaluations": run.evaluations,
        "distinct_nontrivial": len(run.sigs),
        "rule": getattr(mod, "RULE", ""),
        "samples": run.samples,
        "monitor_evaluations": dict(sorted(run.counters.items())),
        "known_findings_observed": {k: v["count"] for k, v in run.known.items()},
    }
    if run.exhaustive is not None:
        coverage["exhaustive"] = bool(run.exhaustive)
    coverage.update(run.extra)
    status = "violated" if run.nviol else ("inconclusive" if run.inconclusive else "held")
    evidence = {
        "property_id": pid,
        "tier": run.tier,
        "seed": run.seed,
        "level": getattr(mod, "LEVEL", "exploration"),
        "coverage": coverage,
        "assumptions": list(getattr(mod, "ASSUMPTIONS", [])),
        "wall_s": round(wall, 2),
        "violations": run.nviol,
        "verdict": status,
        "repo": env.REPO,
    }
    if run.inconclusive:
        evidence["inconclusive_reasons"] = run.inconclusive
    if run.violations:
        evidence["violation_summaries"] = [
            show(v["what"], 300) for v in run.violations[:10]
        ]
    # runs against a scratch copy (VERIF_REPO=...) must not overwrite the evidence of /repo
    ev_dir = (
        os.path.join(env.VERIF, "evidence")
        if os.path.realpath(env.REPO) == os.path.realpath("/repo")
        else os.path.join(env.VERIF, "out", "evidence-scratch")
    )
    os.makedirs(ev_dir, exist_ok=True)
    ev_path = os.path.join(ev_dir, pid + ".json")
    tmp = ev_path + ".tmp%d" % os.getpid()
    with open(tmp, "w") as f:
        json.dump(evidence, f, indent=1, sort_keys=False)
        f.write("\n")
    os.replace(tmp, ev_path)

    for key, info in sorted(run.known.items()):
        print(
            "KNOWN-FINDING: property=%s key=%s %s (re-observed %d times)"
            % (pid, key, listed[key], info["count"])
        )
    if run.nviol:
        for v, p in list(zip(run.violations, replay_paths))[:10]:
            print("  violation: %s" % str(show(v["what"], 400)).replace("\n", " "))
            print("VIOLATION property=%s replay=%s" % (pid, p))
        if run.nviol > len(replay_paths[:10]):
            print("  (%d violating cases in total)" % run.nviol)
        return 1
    if run.inconclusive:
        print(
            "INCONCLUSIVE property=%s reason=%s" % (pid, "; ".join(run.inconclusive))
        )
        return 2
    print(
        "HELD property=%s tier=%s seed=%d evaluations=%d distinct_nontrivial=%d wall_s=%.1f"
        % (pid, run.tier, run.seed, run.evaluations, len(run.sigs), wall)
    )
    return 0
