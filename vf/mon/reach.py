"""Reach map / logical work counter built on sys.monitoring (PEP 669).

Counts PY_START events of the functions defined in selected source files of the
repository.  Used (a) as the 'hook was reached' guard and for evidence, and
(b) as an implementation-agnostic measure of work (C16).  Only the selected
code objects get events, so the cost elsewhere is nil.
"""

import collections
import sys
import types

TOOL = 3  # sys.monitoring.PROFILER_ID + 1 ... any free id 0..5


class Reach:
    def __init__(self, modules, tool_id=TOOL):
        self.mon = getattr(sys, "monitoring", None)
        self.counts = collections.Counter()
        self.total = 0
        self.codes = []
        self.tool = tool_id
        self.active = False
        if self.mon is None:
            return
        for m in modules:
            self._collect(m)

    def _collect(self, module):
        fn = getattr(module, "__file__", None)
        seen = set()

        def add_code(code):
            if code in seen or code.co_filename != fn:
                return
            seen.add(code)
            self.codes.append(code)
            for c in code.co_consts:
                if isinstance(c, types.CodeType):
                    add_code(c)

        def visit(obj, depth=0):
            if isinstance(obj, types.FunctionType):
                add_code(obj.__code__)
                # closures registered elsewhere (e.g. verifier checks) are found through consts
            elif isinstance(obj, (staticmethod, classmethod)):
                visit(obj.__func__, depth)
            elif isinstance(obj, type) and depth < 2 and getattr(obj, "__module__", None) == module.__name__:
                for v in list(vars(obj).values()):
                    visit(getattr(v, "__wrapped__", v), depth + 1)
                    visit(v, depth + 1)
            elif isinstance(obj, property):
                for f in (obj.fget, obj.fset):
                    if f:
                        visit(f, depth)
            w = getattr(obj, "__wrapped__", None)
            if w is not None and w is not obj and depth < 3:
                visit(w, depth + 1)

        for v in list(vars(module).values()):
            visit(v)

    def start(self):
        if self.mon is None or self.active:
            return self
        try:
            self.mon.use_tool_id(self.tool, "vf-reach")
        except ValueError:
            self.mon.free_tool_id(self.tool)
            self.mon.use_tool_id(self.tool, "vf-reach")
        E = self.mon.events

        def on_start(code, offset):
            self.counts[code.co_qualname] += 1
            self.total += 1

        self.mon.register_callback(self.tool, E.PY_START, on_start)
        for c in self.codes:
            self.mon.set_local_events(self.tool, c, E.PY_START)
        self.active = True
        return self

    def stop(self):
        if self.mon is None or not self.active:
            return
        E = self.mon.events
        for c in self.codes:
            self.mon.set_local_events(self.tool, c, 0)
        self.mon.register_callback(self.tool, E.PY_START, None)
        self.mon.free_tool_id(self.tool)
        self.active = False

    def snapshot(self):
        return self.total

    def summary(self, limit=60):
        return dict(self.counts.most_common(limit))
