"""Building and running native harnesses under compiler sanitizers."""

import os
import re
import subprocess

C_FLAGS = ["-std=gnu99", "-O0", "-g", "-fsanitize=address,undefined", "-fno-sanitize=alignment",
           "-fno-sanitize-recover=all", "-fno-omit-frame-pointer", "-w"]
CXX_FLAGS = ["-std=c++17", "-O0", "-gline-tables-only", "-fsanitize=address,undefined",
             "-fno-sanitize-recover=all", "-fno-omit-frame-pointer", "-w"]
RUN_ENV = {
    "ASAN_OPTIONS": "detect_leaks=0:abort_on_error=0:exitcode=97:allocator_may_return_null=1",
    "UBSAN_OPTIONS": "print_stacktrace=1:halt_on_error=1:exitcode=98",
}


def compile_c(sources, out, include_dirs, cwd, timeout=180, flags=None):
    cmd = ["gcc"] + (flags or C_FLAGS) + ["-I%s" % d for d in include_dirs] + list(sources) + ["-o", out, "-lm"]
    p = subprocess.run(cmd, cwd=cwd, capture_output=True, text=True, timeout=timeout)
    return p.returncode, (p.stdout + p.stderr)


def compile_cxx(sources, out, include_dirs, cwd, timeout=400, flags=None, compiler="clang++"):
    cmd = [compiler] + (flags or CXX_FLAGS) + ["-I%s" % d for d in include_dirs] + list(sources) + ["-o", out]
    p = subprocess.run(cmd, cwd=cwd, capture_output=True, text=True, timeout=timeout)
    return p.returncode, (p.stdout + p.stderr)


def run_binary(path, stdin_text, cwd, timeout=300, args=(), extra_env=None):
    env = dict(os.environ)
    env.update(RUN_ENV)
    if extra_env:
        env.update(extra_env)
    try:
        p = subprocess.run([path] + list(args), input=stdin_text, cwd=cwd, capture_output=True, text=True, timeout=timeout, env=env, errors="replace")
    except subprocess.TimeoutExpired as e:
        return None, (e.stdout or ""), "TIMEOUT"
    return p.returncode, p.stdout, p.stderr


REPORT = re.compile(r"(==\d+==ERROR: AddressSanitizer: [^\n]*|[^\n]*runtime error: [^\n]*)")
FRAME = re.compile(r"#\d+ 0x[0-9a-f]+ in ([^\s(]+)[^\n]*?([\w.\-]+\.(?:h|c|cpp|hpp)):(\d+)")


def sanitizer_reports(stderr):
    """[(headline, top frame 'file:function')] de-duplicated by frame, line numbers stripped."""
    out = []
    for m in REPORT.finditer(stderr or ""):
        head = m.group(1).strip()
        tail = stderr[m.end(): m.end() + 3000]
        top = None
        for fm in FRAME.finditer(tail):
            fn, file = fm.group(1), fm.group(2)
            if not file.startswith(("asan_", "sanitizer_", "ubsan_")) and "harness" not in file:
                top = "%s:%s" % (file, fn)
                break
        out.append((re.sub(r"0x[0-9a-f]+", "0x..", re.sub(r"==\d+==", "", head))[:160], top))
    return out


PLAIN_C_FLAGS = ["-std=gnu99", "-O0", "-g", "-w"]
PLAIN_CXX_FLAGS = ["-std=c++17", "-O0", "-g", "-w"]


def valgrind_run(path, stdin_text, cwd, args=(), timeout=1800):
    """Runs an UNSANITIZED binary under valgrind memcheck (uninitialised-value use, invalid
    reads/writes that ASan's red zones miss).  Returns (rc, stdout, stderr); rc 99 = memcheck error."""
    cmd = ["valgrind", "--tool=memcheck", "--error-exitcode=99", "--quiet", "--leak-check=no", "--track-origins=yes", path] + list(args)
    try:
        p = subprocess.run(cmd, input=stdin_text, cwd=cwd, capture_output=True, text=True, timeout=timeout, errors="replace")
    except subprocess.TimeoutExpired as e:
        return None, (e.stdout or ""), "TIMEOUT"
    return p.returncode, p.stdout, p.stderr
