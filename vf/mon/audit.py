"""File-system event log built on sys.addaudithook (cannot be removed once
installed, so it is installed once and switched on/off)."""

import os
import sys

_installed = False
_active = None  # list receiving events, or None

MUTATING = {
    "os.remove", "os.rename", "os.mkdir", "os.rmdir", "os.truncate", "os.chmod", "os.chown",
    "os.utime", "os.link", "os.symlink", "os.chflags", "os.setxattr", "os.removexattr",
    "shutil.rmtree", "shutil.move", "shutil.copyfile", "shutil.copymode", "shutil.copystat",
    "shutil.copytree", "shutil.make_archive", "shutil.unpack_archive", "os.replace",
}


def _hook(event, args):
    log = _active
    if log is None:
        return
    if event == "open":
        path, mode, flags = (list(args) + [None, None, None])[:3]
        writing = False
        if isinstance(flags, int):
            writing = bool(flags & (os.O_WRONLY | os.O_RDWR | os.O_APPEND | os.O_CREAT | os.O_TRUNC))
        elif isinstance(mode, str):
            writing = any(c in mode for c in "wax+")
        log.append(("open-write" if writing else "open-read", _s(path), None))
    elif event in MUTATING:
        log.append((event, _s(args[0]) if args else None, _s(args[1]) if len(args) > 1 and isinstance(args[1], (str, bytes, os.PathLike)) else None))


def _s(p):
    try:
        if isinstance(p, int):
            return "fd:%d" % p
        return os.fspath(p) if not isinstance(p, bytes) else p.decode("utf-8", "replace")
    except TypeError:
        return repr(p)


class Recorder:
    """with Recorder() as rec: ...; rec.events -> [(kind, path, path2)]"""

    def __init__(self):
        self.events = []

    def __enter__(self):
        global _installed, _active
        if not _installed:
            sys.addaudithook(_hook)
            _installed = True
        _active = self.events
        return self

    def __exit__(self, *exc):
        global _active
        _active = None
        return False

    def mutations(self):
        return [e for e in self.events if e[0] != "open-read"]

    def reads(self):
        return [e[1] for e in self.events if e[0] == "open-read"]


def snapshot(root):
    """{relative path: ('dir',) | ('file', size, sha256)} of a directory tree (None if absent)."""
    import hashlib

    if not os.path.lexists(root):
        return None
    out = {}
    for dp, dn, fn in os.walk(root):
        rel = os.path.relpath(dp, root)
        out[rel] = ("dir",)
        for f in fn:
            p = os.path.join(dp, f)
            try:
                data = open(p, "rb").read()
                out[os.path.normpath(os.path.join(rel, f))] = ("file", len(data), hashlib.sha256(data).hexdigest(), os.stat(p).st_mtime_ns)
            except OSError as e:
                out[os.path.normpath(os.path.join(rel, f))] = ("unreadable", str(e))
    return out
