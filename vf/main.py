"""Entry point:  python -m vf.main <Cxx> [--tier quick|thorough] [--replay P]

Exit 0 held / 1 violation (VIOLATION line) / 2 inconclusive.
"""

import argparse
import importlib
import json
import os
import subprocess
import sys
import tempfile
import time
import traceback

from . import env, core


def load(pid):
    return importlib.import_module("vf.props." + pid.lower())


def run_inproc(mod, run):
    try:
        mod.run(run)
    except KeyboardInterrupt:
        raise
    except BaseException as e:  # a crash of the harness itself is never 'held'
        run.inconclusive_because(
            "harness error %s: %s | %s"
            % (type(e).__name__, e, traceback.format_exc().replace("\n", " | ")[-1500:])
        )


def run_sharded(mod, run, nshards, jobs, watchdog):
    tmpd = tempfile.mkdtemp(prefix="vf-shards-")
    procs = {}
    pending = list(range(nshards))
    done = {}
    deadline = time.time() + watchdog
    try:
        while pending or procs:
            while pending and len(procs) < jobs:
                i = pending.pop(0)
                out = os.path.join(tmpd, "shard%d.json" % i)
                cmd = [
                    sys.executable,
                    "-m",
                    "vf.main",
                    run.pid,
                    "--tier",
                    run.tier,
                    "--seed",
                    str(run.seed),
                    "--shard",
                    "%d/%d" % (i, nshards),
                    "--out",
                    out,
                ]
                log = open(os.path.join(tmpd, "shard%d.log" % i), "w")
                procs[i] = (
                    subprocess.Popen(
                        cmd, cwd=env.VERIF, env=env.child_env(), stdout=log, stderr=log
                    ),
                    out,
                    log,
                )
            for i, (p, out, log) in list(procs.items()):
                rc = p.poll()
                if rc is None:
                    continue
                log.close()
                del procs[i]
                if os.path.exists(out):
                    done[i] = json.load(open(out))
                else:
                    tail = open(log.name).read()[-1500:]
                    run.inconclusive_because(
                        "shard %d died rc=%s without a result: %s"
                        % (i, rc, tail.replace("\n", " | "))
                    )
            if time.time() > deadline:
                for i, (p, out, log) in procs.items():
                    p.kill()
                run.inconclusive_because(
                    "watchdog (%ds) fired with %d shards unfinished"
                    % (watchdog, len(procs) + len(pending))
                )
                break
            time.sleep(0.05)
    finally:
        for i in sorted(done):
            run.merge(done[i])
        import shutil

        shutil.rmtree(tmpd, ignore_errors=True)


def main(argv=None):
    ap = argparse.ArgumentParser()
    ap.add_argument("pid")
    ap.add_argument("--tier", default=None)
    ap.add_argument("--seed", type=int, default=None)
    ap.add_argument("--shard", default=None)
    ap.add_argument("--out", default=None)
    ap.add_argument("--replay", default=None)
    ap.add_argument("--jobs", type=int, default=None)
    a = ap.parse_args(argv)

    pid = a.pid.upper()
    tier = a.tier or env.tier()
    seed = a.seed if a.seed is not None else env.seed()
    os.environ["VERIF_SEED"] = str(seed)
    os.environ["VERIF_TIER"] = tier
    env.setup()
    mod = load(pid)

    if a.replay:
        case = json.load(open(a.replay))
        run = core.Run(pid, case.get("tier", tier), case.get("seed", seed))
        try:
            mod.replay(run, core.untag(case["case"]))
        except BaseException as e:
            run.inconclusive_because("replay crashed: %s: %s" % (type(e).__name__, e))
        if run.nviol:
            for v in run.violations:
                print("  violation: %s" % str(core.show(v["what"], 600)))
            print("VIOLATION property=%s replay=%s" % (pid, a.replay))
            return 1
        if run.known:
            for k in run.known:
                print("KNOWN-FINDING: property=%s key=%s (replayed)" % (pid, k))
            return 0
        if run.inconclusive:
            print("INCONCLUSIVE property=%s reason=%s" % (pid, "; ".join(run.inconclusive)))
            return 2
        print("HELD property=%s (replayed case passes on the current tree)" % pid)
        return 0

    if a.shard:
        i, n = a.shard.split("/")
        run = core.Run(pid, tier, seed, int(i), int(n))
        run_inproc(mod, run)
        with open(a.out, "w") as f:
            json.dump(run.dump(), f)
        return 0

    run = core.Run(pid, tier, seed)
    nshards = mod.shards(tier) if hasattr(mod, "shards") else 1
    jobs = a.jobs or int(os.environ.get("VERIF_JOBS", "0")) or min(16, os.cpu_count() or 4)
    if nshards > 1:
        watchdog = getattr(mod, "WATCHDOG", {}).get(tier, 700 if tier == "quick" else 6 * 3600)
        run_sharded(mod, run, nshards, jobs, watchdog)
    else:
        run_inproc(mod, run)
    if hasattr(mod, "conclude"):
        try:
            mod.conclude(run)
        except BaseException as e:
            run.inconclusive_because("conclude crashed: %s: %s" % (type(e).__name__, e))
    if run.evaluations == 0:
        run.inconclusive_because("no case was evaluated")
    elif not run.samples and not run.nviol:
        run.inconclusive_because("no sample case was recorded")
    elif len(run.sigs) < 2 and not run.nviol:
        run.inconclusive_because("fewer than two distinct non-trivial cases were observed")
    return core.finish(run, mod)


if __name__ == "__main__":
    sys.exit(main())
