"""Locations, interpreter path set-up and seeds.  No fcp import at module level."""

import os
import sys

VERIF = os.path.dirname(os.path.dirname(os.path.abspath(__file__)))
REPO = os.path.abspath(os.environ.get("VERIF_REPO", "/repo"))
PLUGINS = ["fcp_cpp", "fcp_dbc", "fcp_can_c", "fcp_nop"]
PYTHON = "/venv/bin/python"
GUARD = "FCP_CORE_VERIF"


def repo_paths():
    return [os.path.join(REPO, "src")] + [
        os.path.join(REPO, "plugins", p) for p in PLUGINS
    ]


def setup():
    """Make the working tree under REPO the one that gets imported."""
    paths = repo_paths()
    for p in paths:
        while p in sys.path:
            sys.path.remove(p)
    sys.path[0:0] = paths
    os.environ[GUARD] = "1"
    import fcp  # noqa

    got = os.path.realpath(os.path.dirname(fcp.__file__))
    want = os.path.realpath(os.path.join(REPO, "src", "fcp"))
    if got != want:
        raise RuntimeError(f"fcp imported from {got}, expected {want}")


def child_env(extra=None):
    """Environment for sub-processes of the checks (same repo, same seed)."""
    env = dict(os.environ)
    pp = repo_paths() + [VERIF]
    env["PYTHONPATH"] = os.pathsep.join(pp)
    env["VERIF_REPO"] = REPO
    env[GUARD] = "1"
    env.setdefault("PYTHONHASHSEED", "0")
    if extra:
        env.update(extra)
    return env


def seed():
    try:
        return int(os.environ.get("VERIF_SEED", "0"))
    except ValueError:
        return 0


def tier(default="quick"):
    t = os.environ.get("VERIF_TIER", default)
    return t if t in ("quick", "thorough") else default


def scratch(prefix):
    import tempfile

    base = os.environ.get("VERIF_TMP") or tempfile.gettempdir()
    os.makedirs(base, exist_ok=True)
    return tempfile.mkdtemp(prefix="vf-" + prefix + "-", dir=base)
