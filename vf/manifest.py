"""Regenerates /verif/MANIFEST.json from the table below:  python -m vf.manifest"""

import json
import os

from . import env

BASELINE_OFF = (
    "cd /repo && env -u FCP_CORE_VERIF /venv/bin/python -m pytest -ra -q -p no:cacheprovider "
    "--timeout=900 --continue-on-collection-errors"
)

# id -> (level category, technique, level text, level note, design ref)
CHECKS = {
    "C01": (
        "exploration",
        "runtime monitoring: boundary oracle decode(encode(v))==v on the real codec over an alignment-grid + random workload; sys.monitoring reach map",
        "decode(encode(v)) == v held on every generated (schema, struct, value); covers every leaf kind at every bit offset mod 8, all container nestings to depth 3, boundary values.  Exploration only: nothing outside the generated classes is claimed.",
        "trusts the value generator's notion of 'in range'; floats compared bit-for-bit; sNaN excluded; histories: address reuse, edits in place, failing calls, -O interpreters; encode() must leave the caller's value untouched",
        "DESIGN.md 3/C01",
    ),
    "C02": (
        "exploration",
        "runtime monitoring: differential oracle against an independent reference codec validated on the 26 project vectors",
        "encode(v) == canonical bytes and decode(canonical bytes) == v on every generated case, plus the 26 project vectors through the Python codec.",
        "trusted base: vf/ref/codec.py (60 lines, no fcp imports, reproduces tests/standardized/fcp_tests.json)",
        "DESIGN.md 3/C02",
    ),
    "C16": (
        "fault_enumeration",
        "runtime monitoring with fault injection: every truncation point and length-prefix corruption of valid encodings; logical work counter via sys.monitoring",
        "every enumerated truncation raises, every corrupted prefix is rejected or parsed like the reference, and the number of python calls inside fcp.serde stays below a bound linear in the input length.",
        "any exception counts as a decoding error; a valid encoding is one that equals the canonical bytes; reference decoder is the spec for corrupted-but-parsable inputs; prefixes also under python -O / -OO and after growing a struct in place",
        "DESIGN.md 3/C16",
    ),
    "C04": (
        "exploration",
        "runtime monitoring: structural invariant checker + reference layout model + history/aliasing monitor on a long-lived PackedEncoder",
        "every layout returned by the real packed encoder tiled its message, matched the reference layout and did not depend on earlier generate() calls; signal-block options sat exactly on their field's leaf.",
        "trusted base: vf/ref/layout.py (40 lines); enum wire width = max(1, bit_length(max))",
        "DESIGN.md 3/C04",
    ),
    "C05": (
        "exploration",
        "runtime monitoring: two independent DBC readers (cantools + own) vs the real layout; end-to-end frame oracle (reference packer <-> cantools)",
        "every generated DBC described exactly the layout of every CAN binding, per bus; packed frames decoded through the DBC to the original values and cantools encoded them to the same bytes.",
        "signals are checked against the leaves of the real encoder AND of the reference layout (names, widths, little-endian positions), units also against the declared ones; cantools is one of the two readers",
        "DESIGN.md 3/C05",
    ),
    "C07": (
        "exploration",
        "runtime monitoring: print->parse oracle with an expected-tree model, metamorphic formatting variants, sys.monitoring production coverage",
        "to_dict() of the parsed tree equalled the expected tree for every description and every formatting variant; every grammar production was exercised.",
        "trusted base: printer + expected-tree model in vf/gen/schema.py; known finding K4 (type names with a builtin-type prefix) is probed separately",
        "DESIGN.md 3/C07",
    ),
    "C08": (
        "exploration",
        "runtime monitoring: post-parse reference walker on accepted trees + error-shape monitor on mutated (undeclared/forward/self/misspelled/imported-later) schemas",
        "no accepted tree had a dangling or mis-kinded reference; every injected unresolved reference was returned as Err naming type and struct and citing the right line.",
        "type names unique; the first unresolved reference in source order is the one reported",
        "DESIGN.md 3/C08",
    ),
    "C09": (
        "exploration",
        "runtime monitoring: reference well-formedness predicate (written twice) vs verify() on a bounded-exhaustive small scope + random trees + permutations; dispatch probes through the public register API",
        "verify() agreed with the specification in both directions on every enumerated / generated tree and check set, under permutations; recording checks saw every node exactly once.",
        "exhaustive only within the stated small-scope bounds; trees edited in place are judged against identical fresh trees; ambiguous trees (CAN binding without id, non-CAN struct > 64 bits) are not judged",
        "DESIGN.md 3/C09",
    ),
    "C10": (
        "fault_enumeration",
        "runtime monitoring with fault injection: every rejection source x generator x directory state; sys.addaudithook file-system event log + content-hash snapshots",
        "every enumerated rejection returned Err and produced no file-system mutation; every accepted run wrote exactly the files the plug-in returned.",
        "faults enumerated: each general rule, each plug-in rule, a synthetic rejecting check in each of the 8 categories (first / last / one of a same-named pair / registered late / failing through Nothing() / rejecting through an escaping .attempt()), histories on one long-lived manager, a probe plug-in of the harness; the output directory is spelled absolute, relative, through .., through a symbolic link, with a trailing slash",
        "DESIGN.md 3/C10",
    ),
    "C11": (
        "exploration",
        "runtime monitoring: exception-escape / render / citation monitors over prefixes, token mutants, out-of-domain literals, random text (lone surrogates included), deep nesting, faulty modules; CPU-time alarm in process, and a kernel CPU limit (RLIMIT_CPU) around child processes for inputs whose cost can sit inside one C-level call",
        "no exception escaped, every Err rendered, every cited .fcp line existed, on every generated input.",
        "nesting to 5000 levels plus a frame-by-frame sweep of the stack headroom; any BaseException other than KeyboardInterrupt counts as an escape; errors are also rendered twice, with colours forced on and without a terminal-like stdout",
        "DESIGN.md 3/C11",
    ),
    "C12": (
        "exploration",
        "runtime monitoring: faithfulness comparator against an expected reflection record + round trip through the real codec + reference-codec bytes under reflection.fcp",
        "the reflection record of every generated schema was faithful, encodable, canonical and round-tripped.",
        "trusted base: vf/ref/reflect.py, vf/ref/minifcp.py, vf/ref/codec.py",
        "DESIGN.md 3/C12",
    ),
    "C14": (
        "exploration",
        "runtime monitoring: outcome + audit-hook monitors on oversize / variable-size CAN bindings; extent/overlap scanners over every generated DBC and C source",
        "every oversize or variable-size CAN binding was rejected by both generators without output; no generated signal extended beyond its message or overlapped another.",
        "exception or Err both count as rejection",
        "DESIGN.md 3/C14",
    ),
    "C17": (
        "exploration",
        "runtime monitoring: differential file-map comparison across fresh processes (hash seeds), in-process histories and tree reuse",
        "all generators produced identical file maps (stamp line removed) across hash seeds, histories and reuse of the same tree.",
        "only the documented stamp line is normalised; generators that must give up on a schema (variable-size CAN binding, over-deep nesting) must do so identically in every configuration",
        "DESIGN.md 3/C17",
    ),
    "C20": (
        "exploration",
        "runtime monitoring: split-vs-single-file tree comparator over random module trees + fault injection into modules with error-shape/citation monitors",
        "every split schema had the same declarations as the single-file schema; every injected module fault was returned as Err naming the module / missing file.",
        "modules are dependency-closed; per-kind multiset comparison (ordered equality recorded); missing modules are also missing while decoy files sit in every place a lookup could fall back to",
        "DESIGN.md 3/C20",
    ),
    "C03": (
        "exploration",
        "compiler sanitizers + runtime monitoring: generated C++ compiled with clang++ -fsanitize=address,undefined, driven by a generic stdin harness; differential oracle against the reference codec and the Python codec",
        "every generated header set compiled as C++17; StaticSchema::EncodeJson gave the canonical bytes and DecodeJson gave back the value on every case; no sanitizer report.",
        "trusted base: vf/ref/codec.py, vendored nlohmann/json, clang++ 14; finite floats only (JSON)",
        "DESIGN.md 3/C03",
    ),
    "C06": (
        "exploration",
        "compiler sanitizers + runtime monitoring: generated C compiled with gcc -fsanitize=address,undefined (minus alignment) plus a harness derived from the generated headers; oracle = reference packing at the real layout",
        "the generated C compiled, encoded every value to the expected id/DLC/data and decoded it back, with no sanitizer report.",
        "flat CAN schemas of the advertised subset, judged against the reference layout; every other schema through GeneratorManager with the plug-in checks; floats compared numerically on decode (-0.0 == 0.0)",
        "DESIGN.md 3/C06",
    ),
    "C13": (
        "exploration",
        "compiler sanitizers + runtime monitoring: static vs reflection-loaded codec in one sanitized harness process (any difference is a violation); histories: reflection loaded twice, a second schema revision used first; known findings matched by defect models",
        "DynamicSchema decoded every canonical byte string like StaticSchema and encoded like it on every struct made of whole-byte leaves; elsewhere its bytes matched the recorded defect model exactly.",
        "reflection binary produced like 'fcp encode'; known findings cpp-dynamic-encode-unpacked and reflection-integers-truncated-to-32-bits",
        "DESIGN.md 3/C13",
    ),
    "C15": (
        "exploration",
        "runtime monitoring (metamorphic): declaration-permuted twins observed through the layout, DBC, Python codec, sanitized generated C and sanitized generated C++",
        "permuting field declarations (ids kept) changed no back end's output, and all agreed with the id-ordered reference.",
        "values matched by field name; known finding cpp-dynamic-encode-unpacked applies to the dynamic C++ encoder",
        "DESIGN.md 3/C15",
    ),
    "C18": (
        "exploration",
        "compiler sanitizers + runtime monitoring: CAN wrapper commands of the generic sanitized harness vs reference codec + binding table; probe frames with non-matching (id, bus)",
        "every frame carried the binding's id, bus and canonical payload; decoding returned name and value; non-matching frames were unknown; static and dynamic agreed; no sanitizer report.",
        "bindings named after their struct, bus names of 1-4 characters; known finding cpp-dynamic-encode-unpacked",
        "DESIGN.md 3/C18",
    ),
    "C19": (
        "exploration",
        "compiler sanitizers + runtime monitoring: send-callback event log of forked scheduler histories checked against a reference automaton (bounded-exhaustive histories + random)",
        "on every history the generated scheduler sent exactly the frames the reference automaton sends, with the encoding of the current values.",
        "histories judged only when wrapping and true-time elapsed readings coincide; a frame whose id member is narrower than a declared identifier is matched by its low bits; on two calls out of three only the last member of a message changes",
        "DESIGN.md 3/C19",
    ),
}

NOT_YET = "check not built yet in this round (see DESIGN.md section 3 for the planned monitor)"


def build():
    props = [json.loads(l) for l in open(os.path.join(env.VERIF, "properties.jsonl")) if l.strip()]
    checks = []
    na = []
    for p in props:
        pid = p["id"]
        if pid in CHECKS:
            cat, tech, text, note, ref = CHECKS[pid]
            checks.append(
                {
                    "property_id": pid,
                    "quick_cmd": "./check %s --tier quick" % pid,
                    "thorough_cmd": "./check %s --tier thorough" % pid,
                    "evidence_file": "/verif/evidence/%s.json" % pid,
                    "replay_cmd_template": "./check %s --replay {path}" % pid,
                    "engine": "vf",
                    "level_claimed": {"category": cat, "text": text, "design_ref": ref},
                    "level_note": note,
                    "technique": tech,
                }
            )
        else:
            na.append({"property_id": pid, "reason": NA.get(pid, NOT_YET)})
    m = {
        "version": 1,
        "setup_cmd": "./setup.sh",
        "hooks": {
            "guard": env.GUARD,
            "enable": "no source hooks: every monitor is attached from /verif (sys.monitoring, sys.addaudithook, attribute wrapping, sanitizer builds of the generated C/C++); checks export FCP_CORE_VERIF=1 for uniformity",
            "baseline_off_cmd": BASELINE_OFF,
            "source_commits": [],
            "add_only": True,
        },
        "engines": [
            {
                "name": "vf",
                "path": "/verif/vf",
                "serves_properties": sorted(CHECKS),
                "kind_free_text": "python runtime-monitoring harness (workload generators, reference models, monitors, sanitizer build/run drivers); entry point /verif/check",
            }
        ],
        "checks": checks,
        "notes": "exit 0 held / 1 VIOLATION line / 2 inconclusive (never on the unchanged tree). Known findings: /verif/known_findings.txt. VERIF_SEED and VERIF_TIER are honoured.",
        "not_applicable": na,
    }
    return m


NA = {}

if __name__ == "__main__":
    m = build()
    with open(os.path.join(env.VERIF, "MANIFEST.json"), "w") as f:
        json.dump(m, f, indent=1)
        f.write("\n")
    print("wrote MANIFEST.json with %d checks, %d not claimed" % (len(m["checks"]), len(m["not_applicable"])))
