"""Regenerates /verif/MANIFEST.json from the table below:  python -m vf.manifest"""

import json
import os

from . import env

BASELINE_OFF = (
    "cd /repo && env -u FCP_CORE_VERIF /venv/bin/python -m pytest -ra -q -p no:cacheprovider "
    "--timeout=900 --continue-on-collection-errors"
)

# id -> (level category, technique, level text, level note, design ref)
CHECKS = {
    "C01": (
        "exploration",
        "runtime monitoring: boundary oracle decode(encode(v))==v on the real codec over an alignment-grid + random workload; sys.monitoring reach map",
        "decode(encode(v)) == v held on every generated (schema, struct, value); covers every leaf kind at every bit offset mod 8, all container nestings to depth 3, boundary values.  Exploration only: nothing outside the generated classes is claimed.",
        "trusts the value generator's notion of 'in range'; floats compared bit-for-bit; sNaN excluded",
        "DESIGN.md 3/C01",
    ),
    "C02": (
        "exploration",
        "runtime monitoring: differential oracle against an independent reference codec validated on the 26 project vectors",
        "encode(v) == canonical bytes and decode(canonical bytes) == v on every generated case, plus the 26 project vectors through the Python codec.",
        "trusted base: vf/ref/codec.py (60 lines, no fcp imports, reproduces tests/standardized/fcp_tests.json)",
        "DESIGN.md 3/C02",
    ),
    "C16": (
        "fault_enumeration",
        "runtime monitoring with fault injection: every truncation point and length-prefix corruption of valid encodings; logical work counter via sys.monitoring",
        "every enumerated truncation raises, every corrupted prefix is rejected or parsed like the reference, and the number of python calls inside fcp.serde stays below a bound linear in the input length.",
        "any exception counts as a decoding error; reference decoder is the spec for corrupted-but-parsable inputs",
        "DESIGN.md 3/C16",
    ),
}

NOT_YET = "check not built yet in this round (see DESIGN.md section 3 for the planned monitor)"


def build():
    props = [json.loads(l) for l in open(os.path.join(env.VERIF, "properties.jsonl")) if l.strip()]
    checks = []
    na = []
    for p in props:
        pid = p["id"]
        if pid in CHECKS:
            cat, tech, text, note, ref = CHECKS[pid]
            checks.append(
                {
                    "property_id": pid,
                    "quick_cmd": "./check %s --tier quick" % pid,
                    "thorough_cmd": "./check %s --tier thorough" % pid,
                    "evidence_file": "/verif/evidence/%s.json" % pid,
                    "replay_cmd_template": "./check %s --replay {path}" % pid,
                    "engine": "vf",
                    "level_claimed": {"category": cat, "text": text, "design_ref": ref},
                    "level_note": note,
                    "technique": tech,
                }
            )
        else:
            na.append({"property_id": pid, "reason": NA.get(pid, NOT_YET)})
    m = {
        "version": 1,
        "setup_cmd": "./setup.sh",
        "hooks": {
            "guard": env.GUARD,
            "enable": "no source hooks: every monitor is attached from /verif (sys.monitoring, sys.addaudithook, attribute wrapping, sanitizer builds of the generated C/C++); checks export FCP_CORE_VERIF=1 for uniformity",
            "baseline_off_cmd": BASELINE_OFF,
            "source_commits": [],
            "add_only": True,
        },
        "engines": [
            {
                "name": "vf",
                "path": "/verif/vf",
                "serves_properties": sorted(CHECKS),
                "kind_free_text": "python runtime-monitoring harness (workload generators, reference models, monitors, sanitizer build/run drivers); entry point /verif/check",
            }
        ],
        "checks": checks,
        "notes": "exit 0 held / 1 VIOLATION line / 2 inconclusive (never on the unchanged tree). Known findings: /verif/known_findings.txt. VERIF_SEED and VERIF_TIER are honoured.",
        "not_applicable": na,
    }
    return m


NA = {}

if __name__ == "__main__":
    m = build()
    with open(os.path.join(env.VERIF, "MANIFEST.json"), "w") as f:
        json.dump(m, f, indent=1)
        f.write("\n")
    print("wrote MANIFEST.json with %d checks, %d not claimed" % (len(m["checks"]), len(m["not_applicable"])))
