"""Minimal own reader for the DBC subset fcp_dbc emits: BO_, SG_, SIG_VALTYPE_,
SG_MUL_VAL_.  Independent of cantools (used to cross-check it)."""

import re

BO = re.compile(r"^BO_ (\d+) (\S+) *: *(\d+) (\S+)")
SG = re.compile(
    r"^ SG_ (\S+)(?: (M|m\d+M?))? *: *(\d+)\|(\d+)@([01])([+-]) \(([^,]+),([^)]+)\) \[([^|]*)\|([^\]]*)\] \"([^\"]*)\" *(.*)$"
)
VALTYPE = re.compile(r"^SIG_VALTYPE_ (\d+) (\S+) *: *(\d+) *;")
MULVAL = re.compile(r"^SG_MUL_VAL_ (\d+) (\S+) (\S+) ([^;]*);")


def read(text):
    """{frame_id: {"name", "length", "signals": {name: {...}}}}; raises ValueError on lines of a
    known kind it cannot parse."""
    msgs = {}
    cur = None
    for line in text.replace("\r\n", "\n").split("\n"):
        if line.startswith("BO_ "):
            m = BO.match(line)
            if not m:
                raise ValueError("bad BO_ line: %r" % line)
            cur = {"name": m.group(2), "length": int(m.group(3)), "signals": {}, "order": []}
            fid = int(m.group(1))
            if fid in msgs:
                raise ValueError("frame id %d twice" % fid)
            msgs[fid] = cur
        elif line.startswith(" SG_ "):
            m = SG.match(line)
            if not m or cur is None:
                raise ValueError("bad SG_ line: %r" % line)
            name = m.group(1)
            if name in cur["signals"]:
                raise ValueError("signal %s twice" % name)
            cur["signals"][name] = {
                "mux": m.group(2),
                "start": int(m.group(3)),
                "length": int(m.group(4)),
                "little": m.group(5) == "1",
                "signed": m.group(6) == "-",
                "scale": float(m.group(7)),
                "offset": float(m.group(8)),
                "unit": m.group(11),
                "float": 0,
                "mux_signal": None,
                "mux_ids": None,
            }
            cur["order"].append(name)
        elif line.startswith("SIG_VALTYPE_ "):
            m = VALTYPE.match(line)
            if not m:
                raise ValueError("bad SIG_VALTYPE_ line: %r" % line)
            msgs[int(m.group(1))]["signals"][m.group(2)]["float"] = int(m.group(3))
        elif line.startswith("SG_MUL_VAL_ "):
            m = MULVAL.match(line)
            if not m:
                raise ValueError("bad SG_MUL_VAL_ line: %r" % line)
            ids = []
            for rng in m.group(4).split(","):
                a, b = rng.strip().split("-")
                ids += list(range(int(a), int(b) + 1))
            s = msgs[int(m.group(1))]["signals"][m.group(2)]
            s["mux_signal"] = m.group(3)
            s["mux_ids"] = ids
    return msgs
