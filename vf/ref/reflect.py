"""Expected reflection record of a schema description (C12).  No fcp imports."""

from ..gen import schema as S


def type_chain(t):
    k = t[0]
    if k == "u":
        return [{"name": "u%d" % t[1], "type": "unsigned", "size": 1}]
    if k == "i":
        return [{"name": "i%d" % t[1], "type": "signed", "size": 1}]
    if k == "f32":
        return [{"name": "f32", "type": "float", "size": 1}]
    if k == "f64":
        return [{"name": "f64", "type": "double", "size": 1}]
    if k == "str":
        return [{"name": "str", "type": "str", "size": 1}]
    if k == "enum":
        return [{"name": t[1], "type": "Enum", "size": 1}]
    if k == "struct":
        return [{"name": t[1], "type": "Struct", "size": 1}]
    if k == "arr":
        return [{"name": "Array", "type": "Array", "size": t[2]}] + type_chain(t[1])
    if k == "dyn":
        return [{"name": "DynamicArray", "type": "DynamicArray", "size": 1}] + type_chain(t[1])
    if k == "opt":
        return [{"name": "Optional", "type": "Optional", "size": 1}] + type_chain(t[1])
    raise ValueError(t)


def kv(pairs):
    return [{"name": k, "value": str(S.dval(v))} for k, v in pairs]


def expected(decls):
    """Reflection record without the 'meta' entries (compared separately)."""
    structs, enums, impls, services = [], [], [], []
    for d in decls:
        k = d["kind"]
        if k == "struct":
            structs.append({
                "name": d["name"],
                "fields": [{
                    "name": f["name"], "field_id": f["id"], "type": type_chain(f["type"]),
                    "unit": f.get("unit"),
                    "min_value": float(f["range"][0]) if "range" in f else None,
                    "max_value": float(f["range"][1]) if "range" in f else None,
                } for f in d["fields"]],
            })
            impls.append({"name": d["name"], "protocol": "default", "type": d["name"], "fields": [], "signals": []})
        elif k == "enum":
            enums.append({"name": d["name"], "enumeration": [{"name": n, "value": v} for n, v in d["values"]]})
        elif k == "impl":
            impls.append({
                "name": S.impl_name(d), "protocol": d["protocol"], "type": d["type"],
                "fields": kv(S.impl_fields(d).items()),
                "signals": [{"name": n, "fields": kv(fl)} for n, fl in S.impl_signals(d)],
            })
        elif k == "service":
            services.append({"name": d["name"], "id": d["id"], "methods": [{"name": m["name"], "id": m["id"], "input": m["input"], "output": m["output"]} for m in d["methods"]]})
    return {"tag": [0x66, 0x63, 0x70], "version": 3000, "structs": structs, "enums": enums, "impls": impls, "services": services}


def strip_meta(x):
    if isinstance(x, dict):
        return {k: strip_meta(v) for k, v in x.items() if k != "meta"}
    if isinstance(x, list):
        return [strip_meta(v) for v in x]
    return x


def metas(x, path=""):
    """Yield (path, meta dict or None) for every node carrying a 'meta' key."""
    if isinstance(x, dict):
        if "meta" in x:
            yield path + "/" + str(x.get("name", "")), x["meta"]
        for k, v in x.items():
            if k != "meta":
                yield from metas(v, path + "/" + k)
    elif isinstance(x, list):
        for i, v in enumerate(x):
            yield from metas(v, path + "[%d]" % i)
