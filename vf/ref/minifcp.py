"""A deliberately tiny reader for the plain subset of FCP that the repository's
own reflection schema uses (structs only, scalar / str / [T] / [T, n] /
Optional[T] / struct-reference field types).  Lets the reference codec be driven
by src/fcp/reflection/reflection.fcp without importing fcp."""

import re


def _ptype(s, names):
    s = s.strip()
    m = re.fullmatch(r"([ui])(\d{1,2})", s)
    if m:
        return (m.group(1), int(m.group(2)))
    if s in ("f32", "f64", "str"):
        return (s,)
    m = re.fullmatch(r"Optional\[(.*)\]", s)
    if m:
        return ("opt", _ptype(m.group(1), names))
    m = re.fullmatch(r"\[(.*),\s*(\d+)\]", s)
    if m:
        return ("arr", _ptype(m.group(1), names), int(m.group(2)))
    m = re.fullmatch(r"\[(.*)\]", s)
    if m:
        return ("dyn", _ptype(m.group(1), names))
    if s in names:
        return ("struct", s)
    raise ValueError("unsupported type %r" % s)


def read(text):
    text = re.sub(r"/\*.*?\*/", "", text, flags=re.S)
    text = re.sub(r"//[^\n]*", "", text)
    decls = []
    names = set()
    for m in re.finditer(r"struct\s+(\w+)\s*\{(.*?)\}", text, re.S):
        name, body = m.group(1), m.group(2)
        fields = []
        for fm in re.finditer(r"(\w+)\s*@\s*(\d+)\s*:\s*([^,|]+(?:,\s*\d+\])?)\s*,", body):
            fields.append({"name": fm.group(1), "id": int(fm.group(2)), "type": _ptype(fm.group(3), names | {name})})
        decls.append({"kind": "struct", "name": name, "fields": fields})
        names.add(name)
    if re.search(r"\b(enum|impl|service|device|mod)\b", text):
        raise ValueError("reflection schema uses declarations this reader does not know")
    return decls
