"""Reference automaton of the generated C scheduler (C19).  No fcp imports.

State: last_call (init 0), last_send[i] (init 0).  call(t):
  if t == last_call: nothing
  else: last_call = t; for i in order: if P_i != -1 and elapsed(t, last_send[i]) >= P_i: send i; last_send[i] = t
Two readings of 'elapsed' are computed: uint32 wrapping (what a 32-bit clock can observe) and
true time; a history is only judged when both give the same sends (the property's cap)."""

M32 = 1 << 32


def simulate(periods, true_times):
    """periods: [P_i]; true_times: non-decreasing integers (true time).  Returns
    (sends_mod, sends_true): lists of (call index, message index)."""
    out_mod, out_true = [], []
    last_call_m = 0
    last_send_m = [0] * len(periods)
    last_call_t = 0
    last_send_t = [0] * len(periods)
    for j, T in enumerate(true_times):
        t = T % M32
        if t != last_call_m:
            last_call_m = t
            for i, p in enumerate(periods):
                if p != -1 and ((t - last_send_m[i]) % M32) >= p:
                    out_mod.append((j, i))
                    last_send_m[i] = t
        if T != last_call_t:
            last_call_t = T
            for i, p in enumerate(periods):
                if p != -1 and (T - last_send_t[i]) >= p:
                    out_true.append((j, i))
                    last_send_t[i] = T
    return out_mod, out_true


def self_check():
    """The repository's own 003_msg_scheduling history: periods 15, 20 and none, polled at
    t = 0, 15, 15, 20, 25: Pedals is sent at 15, Shutdown at 20, nothing else."""
    mod, true = simulate([15, 20, -1], [0, 15, 15, 20, 25])
    want = [(1, 0), (3, 1)]
    return [] if mod == want and true == want else ["scheduler self-check: %r %r != %r" % (mod, true, want)]
