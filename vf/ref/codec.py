"""Reference codec: the canonical FCP wire format exactly as property C02 words
it.  No fcp imports.  Values: ints, floats, str, enum = numeric value, struct =
dict, arrays = lists, optional = None | value.

  * fields in ascending field id
  * every scalar bit-packed LSB-first (byte = bit >> 3, bit & 7), no padding
  * two's complement integers; IEEE-754 words for f32/f64
  * enum = minimal width max(1, bit_length(max enumerator))
  * u32 count before str and dynamic arrays; u8 presence flag before optionals
  * zero padding only in the last byte
"""

import struct as _st


class Truncated(Exception):
    pass


class BitWriter:
    def __init__(self, align_leaves=False):
        self.acc = 0
        self.n = 0
        self.align_leaves = align_leaves
        self.counts = []  # (bit position, value, kind) of every u32 count / u8 flag written

    def mark(self, kind, value):
        self.counts.append((self.n, value, kind))

    def word(self, v, bits):
        self.acc |= (v & ((1 << bits) - 1)) << self.n
        self.n += bits

    def bytes(self):
        return self.acc.to_bytes((self.n + 7) // 8, "little")


class BitReader:
    def __init__(self, data):
        self.d = bytes(data)
        self.acc = int.from_bytes(self.d, "little")
        self.total = 8 * len(self.d)
        self.p = 0

    def word(self, bits):
        if self.p + bits > self.total:
            raise Truncated("need %d bits at %d of %d" % (bits, self.p, self.total))
        v = (self.acc >> self.p) & ((1 << bits) - 1)
        self.p += bits
        return v


def f32_bits(v):
    return _st.unpack("<I", _st.pack("<f", v))[0]


def f64_bits(v):
    return _st.unpack("<Q", _st.pack("<d", v))[0]


def bits_f32(b):
    return _st.unpack("<f", _st.pack("<I", b))[0]


def bits_f64(b):
    return _st.unpack("<d", _st.pack("<Q", b))[0]


def enc(sch, t, v, w):
    k = t[0]
    if w.align_leaves and k in ("u", "i", "f32", "f64", "enum"):
        _enc(sch, t, v, w)
        w.n = (w.n + 7) // 8 * 8
        return
    _enc(sch, t, v, w)


def _enc(sch, t, v, w):
    k = t[0]
    if k == "u":
        w.word(v, t[1])
    elif k == "i":
        w.word(v & ((1 << t[1]) - 1), t[1])
    elif k == "f32":
        w.word(f32_bits(v), 32)
    elif k == "f64":
        w.word(f64_bits(v), 64)
    elif k == "str":
        raw = v.encode("utf-8")  # 7-bit ASCII strings are their own UTF-8 encoding
        w.mark("str", len(raw))
        w.word(len(raw), 32)
        for c in raw:
            w.word(c, 8)
    elif k == "enum":
        w.word(v, sch.enum_width(t[1]))
    elif k == "struct":
        for f in sch.fields_by_id(t[1]):
            enc(sch, f["type"], v[f["name"]], w)
    elif k == "arr":
        for i in range(t[2]):
            enc(sch, t[1], v[i], w)
    elif k == "dyn":
        w.mark("dyn", len(v))
        w.word(len(v), 32)
        for x in v:
            enc(sch, t[1], x, w)
    elif k == "opt":
        w.mark("opt", 0 if v is None else 1)
        w.word(0 if v is None else 1, 8)
        if v is not None:
            enc(sch, t[1], v, w)
    else:
        raise ValueError(t)


def dec(sch, t, r):
    k = t[0]
    if k == "u":
        return r.word(t[1])
    if k == "i":
        x = r.word(t[1])
        return x - (1 << t[1]) if x >> (t[1] - 1) else x
    if k == "f32":
        return bits_f32(r.word(32))
    if k == "f64":
        return bits_f64(r.word(64))
    if k == "str":
        n = r.word(32)
        if r.p + 8 * n > r.total:
            raise Truncated("string of %d bytes" % n)
        raw = bytes(r.word(8) for _ in range(n))
        try:
            return raw.decode("utf-8")
        except UnicodeDecodeError:
            return raw.decode("latin-1")  # not text: the caller compares, a real decoder may refuse
    if k == "enum":
        return r.word(sch.enum_width(t[1]))
    if k == "struct":
        out = {}
        for f in sch.fields_by_id(t[1]):
            out[f["name"]] = dec(sch, f["type"], r)
        return out
    if k == "arr":
        return [dec(sch, t[1], r) for _ in range(t[2])]
    if k == "dyn":
        n = r.word(32)
        out = []
        for _ in range(n):
            out.append(dec(sch, t[1], r))
        return out
    if k == "opt":
        return dec(sch, t[1], r) if r.word(8) else None
    raise ValueError(t)


def encode(sch, name, v):
    w = BitWriter()
    enc(sch, ("struct", name), v, w)
    return w.bytes()


def encode_traced(sch, name, v):
    """(bytes, [(bit position, value, kind)]) - where the counts and flags sit."""
    w = BitWriter()
    enc(sch, ("struct", name), v, w)
    return w.bytes(), w.counts


def patch_bits(data, pos, width, value):
    acc = int.from_bytes(data, "little")
    mask = ((1 << width) - 1) << pos
    acc = (acc & ~mask) | ((value << pos) & mask)
    return acc.to_bytes(len(data), "little")


def encode_leaf_aligned(sch, name, v):
    """DEFECT MODEL (known finding cpp-dynamic-encode-unpacked), not the wire format: every scalar
    leaf is encoded on its own and padded to a whole number of bytes, containers concatenate."""
    w = BitWriter(align_leaves=True)
    enc(sch, ("struct", name), v, w)
    return w.bytes()


def bitsize(sch, name, v):
    w = BitWriter()
    enc(sch, ("struct", name), v, w)
    return w.n


def decode(sch, name, data):
    return dec(sch, ("struct", name), BitReader(data))


def same(a, b):
    """Value equality with floats compared by bit pattern and exact types."""
    if isinstance(a, float) or isinstance(b, float):
        return (
            isinstance(a, float)
            and isinstance(b, float)
            and _st.pack("<d", a) == _st.pack("<d", b)
        )
    if isinstance(a, dict):
        return (
            isinstance(b, dict)
            and set(a.keys()) == set(b.keys())
            and all(same(a[k], b[k]) for k in a)
        )
    if isinstance(a, (list, tuple)):
        return (
            isinstance(b, (list, tuple))
            and len(a) == len(b)
            and all(same(x, y) for x, y in zip(a, b))
        )
    if isinstance(a, bool) or isinstance(b, bool):
        return type(a) == type(b) and a == b
    if a is None or b is None:
        return a is None and b is None
    return type(a) == type(b) and a == b


# ------------------------------------------------ self check: project vectors
def _vector_value(sch, t, raw):
    k = t[0]
    if k in ("u", "i"):
        special = {
            "ULONG_MAX": (1 << 64) - 1,
            "LLONG_MAX": (1 << 63) - 1,
            "LLONG_MIN": -(1 << 63),
        }
        return special[raw] if raw in special else int(raw, 0)
    if k in ("f32", "f64"):
        return float(raw)
    if k == "str":
        return raw
    if k == "enum":
        return dict(sch.enums[t[1]])[raw]
    if k == "arr" or k == "dyn":
        return [_vector_value(sch, t[1], x) for x in raw]
    if k == "opt":
        return None if raw is None else _vector_value(sch, t[1], raw)
    raise ValueError(t)


def self_check(repo):
    """Reproduce every vector of tests/standardized/fcp_tests.json byte for byte.

    Returns (n_vectors, problems).  The two schemas are transcribed here as
    descriptions (checked against the repo's .fcp text by the caller if wanted)."""
    import json, os
    from ..gen import schema as S

    def st(name, *fields):
        return {
            "kind": "struct",
            "name": name,
            "fields": [{"name": n, "id": i, "type": t} for n, i, t in fields],
        }

    E = {"kind": "enum", "name": "E", "values": [("S0", 0), ("S1", 1), ("S2", 2)]}
    basic = [
        st("S1", ("s0", 0, ("u", 8)), ("s1", 1, ("i", 8))),
        st("S2", ("s0", 0, ("u", 16)), ("s1", 1, ("i", 16))),
        st("S3", ("s0", 0, ("u", 32)), ("s1", 1, ("i", 32))),
        st("S4", ("s0", 0, ("u", 64)), ("s1", 1, ("i", 64))),
        st("S5", ("s0", 0, ("f32",)), ("s1", 1, ("f64",))),
        E,
        st("S6", ("s1", 0, ("enum", "E"))),
        st("S7", ("s1", 0, ("arr", ("u", 8), 4))),
        st("S8", ("s1", 0, ("arr", ("u", 16), 4))),
        st("S9", ("s1", 0, ("arr", ("enum", "E"), 4))),
    ]
    optional = [
        E,
        st("S1", ("s1", 0, ("str",))),
        st("S2", ("s1", 0, ("dyn", ("u", 8)))),
        st("S3", ("s1", 0, ("dyn", ("enum", "E")))),
        st("S4", ("s1", 0, ("opt", ("u", 8)))),
    ]
    table = {"001_basic_values.fcp": basic, "002_optional_features.fcp": optional}
    path = os.path.join(repo, "tests", "standardized", "fcp_tests.json")
    suites = json.load(open(path))
    problems = []
    n = 0
    used = []
    for suite in suites:
        decls = table.get(suite["schema"])
        if decls is None:
            problems.append("unknown vector schema %s" % suite["schema"])
            continue
        sch = S.Sch(decls)
        for test in suite["tests"]:
            n += 1
            name = test["datatype"]
            value = {}
            for key, raw in test["decoded"].items():
                fname = key.split(":")[1]
                ftype = [f for f in sch.structs[name] if f["name"] == fname][0]["type"]
                value[fname] = _vector_value(sch, ftype, raw)
            want = bytes(x if isinstance(x, int) else int(x, 16) for x in test["encoded"])
            got = encode(sch, name, value)
            if got != want:
                problems.append("%s/%s: ref encode %s != vector %s" % (suite["name"], test["name"], got.hex(), want.hex()))
            back = decode(sch, name, want)
            if not same(back, value):
                problems.append("%s/%s: ref decode %r != %r" % (suite["name"], test["name"], back, value))
            used.append((suite["schema"], decls, name, value, want))
    return n, problems, used
