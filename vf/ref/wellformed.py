"""C09's well-formedness specification as an executable predicate over plain
tree descriptions, written twice (imperative and declarative) so that a typo in
the oracle shows up as a disagreement between the two.  No fcp imports.

Tree description:
  {"structs": [{"name", "fields": [{"name", "id", "type"}]}],
   "enums":   [{"name", "values": [(name, value)]}],
   "impls":   [{"name", "protocol", "type", "fields": {k: v}, "signals": [{"name", "fields": {}}]}],
   "services":[{"name", "id", "methods": [{"name","id","input","output"}]}],
   "devices": [{"name", "fields": {k: v}}]}
"""

import collections


# ------------------------------------------------------------------ version 1
def general_violations(t):
    out = []
    names = [s["name"] for s in t["structs"]] + [e["name"] for e in t["enums"]]
    for n in names:
        if names.count(n) > 1:
            out.append(("duplicate-type-name", n))
            break
    pairs = [(i["name"], i["protocol"]) for i in t["impls"]]
    for p in pairs:
        if pairs.count(p) > 1:
            out.append(("duplicate-binding", p))
            break
    for s in t["structs"]:
        fn = [f["name"] for f in s["fields"]]
        if any(fn.count(x) > 1 for x in fn):
            out.append(("duplicate-field-name", s["name"]))
        if len(s["fields"]) == 0:
            out.append(("empty-struct", s["name"]))
    for e in t["enums"]:
        en = [n for n, _ in e["values"]]
        ev = [v for _, v in e["values"]]
        if any(en.count(x) > 1 for x in en):
            out.append(("duplicate-enumerator-name", e["name"]))
        if any(ev.count(x) > 1 for x in ev):
            out.append(("duplicate-enumerator-value", e["name"]))
    declared = [s["name"] for s in t["services"]]
    for d in t["devices"]:
        listed = d["fields"].get("services")
        if listed is None:
            continue
        for s in listed:
            if s not in declared:
                out.append(("unknown-service", (d["name"], s)))
    return out


def unknown_struct_bindings(t):
    structs = [s["name"] for s in t["structs"]]
    return [i["name"] for i in t["impls"] if i["type"] not in structs]


def dbc_violations(t):
    out = [("binding-to-unknown-struct", n) for n in unknown_struct_bindings(t)]
    ids = [i["fields"].get("id") for i in t["impls"] if i["protocol"] == "can" and i["fields"].get("id") is not None]
    for x in ids:
        if ids.count(x) > 1:
            out.append(("duplicate-can-id", x))
            break
    return out


def c_violations(t, width_of):
    """width_of(struct name) -> packed bits of a fixed-size struct."""
    out = [("binding-to-unknown-struct", n) for n in unknown_struct_bindings(t)]
    structs = [s["name"] for s in t["structs"]]
    for i in t["impls"]:
        if i["protocol"] == "can" and i["type"] in structs and width_of(i["type"]) > 64:
            out.append(("message-wider-than-64-bits", i["name"]))
    return out


# ------------------------------------------------------------------ version 2
def _dups(seq):
    return {k for k, n in collections.Counter(seq).items() if n > 1}


def general_ok2(t):
    type_names = [x["name"] for x in t["structs"] + t["enums"]]
    declared = {s["name"] for s in t["services"]}
    return not (
        _dups(type_names)
        or _dups((i["name"], i["protocol"]) for i in t["impls"])
        or any(_dups(f["name"] for f in s["fields"]) for s in t["structs"])
        or any(not s["fields"] for s in t["structs"])
        or any(_dups(n for n, _ in e["values"]) for e in t["enums"])
        or any(_dups(v for _, v in e["values"]) for e in t["enums"])
        or any(set(d["fields"].get("services") or []) - declared for d in t["devices"])
    )


def dbc_ok2(t):
    structs = {s["name"] for s in t["structs"]}
    can_ids = [i["fields"]["id"] for i in t["impls"] if i["protocol"] == "can" and i["fields"].get("id") is not None]
    return all(i["type"] in structs for i in t["impls"]) and not _dups(can_ids)


def c_ok2(t, width_of):
    structs = {s["name"] for s in t["structs"]}
    return all(i["type"] in structs for i in t["impls"]) and all(
        width_of(i["type"]) <= 64 for i in t["impls"] if i["protocol"] == "can"
    )


def verdict(t, checkset, width_of=None):
    """(well_formed: bool, reasons) for checkset in 'general' | 'dbc' | 'can_c'."""
    v = general_violations(t)
    ok2 = general_ok2(t)
    if checkset == "dbc":
        v = v + dbc_violations(t)
        ok2 = ok2 and dbc_ok2(t)
    elif checkset == "can_c":
        v = v + c_violations(t, width_of)
        ok2 = ok2 and c_ok2(t, width_of)
    ok1 = not v
    if ok1 != ok2:
        raise AssertionError("the two formulations of the specification disagree on %r" % (t,))
    return ok1, v
