"""Reference packed layout (C04): flatten a struct by ascending field id into
scalar leaves with hierarchical names, consecutive bit ranges from bit 0.
No fcp imports."""


class Outside(Exception):
    """Shape the statement does not cover (e.g. not-unrolled array of structs, variable size)."""


def leaves(sch, struct_name, unroll, prefix=""):
    """[(name, type, field_name)] in wire order."""
    out = []
    for f in sch.fields_by_id(struct_name):
        out += _field(sch, f["name"], f["type"], unroll, prefix)
    return out


def _field(sch, name, t, unroll, prefix):
    k = t[0]
    if k == "struct":
        return leaves(sch, t[1], unroll, prefix + name + "::")
    if k == "arr" and unroll:
        out = []
        for i in range(t[2]):
            out += _field(sch, "%s_%d" % (name, i), t[1], unroll, prefix)
        return out
    if k in ("str", "dyn", "opt"):
        raise Outside("variable-size field")
    if k == "arr":
        inner = t
        while inner[0] == "arr":
            inner = inner[1]
        if inner[0] not in ("u", "i", "f32", "f64", "enum"):
            raise Outside("array of %s without unrolling" % inner[0])
    return [(prefix + name, t, name)]


def leaf_units(sch, struct_name, unroll=True, prefix=""):
    """{leaf name: unit declared on the field the leaf comes from (None when there is none)}."""
    out = {}
    for f in sch.fields_by_id(struct_name):
        t = f["type"]
        names = [f["name"]]
        while t[0] == "arr" and unroll:
            names = ["%s_%d" % (n, i) for n in names for i in range(t[2])]
            t = t[1]
        for n in names:
            if t[0] == "struct":
                out.update(leaf_units(sch, t[1], unroll, prefix + n + "::"))
            else:
                out[prefix + n] = f.get("unit")
    return out


def layout(sch, struct_name, unroll):
    """[(name, bitstart, bitlength, type, field_name)]"""
    out = []
    pos = 0
    for name, t, fname in leaves(sch, struct_name, unroll):
        w = sch.width(t)
        out.append((name, pos, w, t, fname))
        pos += w
    return out


def self_check():
    """The two layouts asserted by the repository's tests/test_packed_encoding.py, transcribed,
    plus one unrolled-array layout taken from the DBC golden 008_simple_array."""
    from ..gen import schema as S

    decls = [
        {"kind": "struct", "name": "A", "fields": [{"name": "s1", "id": 0, "type": ("u", 32)}, {"name": "s2", "id": 1, "type": ("u", 16)}]},
        {"kind": "struct", "name": "B", "fields": [{"name": "s1", "id": 0, "type": ("struct", "A")}, {"name": "s2", "id": 1, "type": ("u", 8)}]},
        {"kind": "struct", "name": "C", "fields": [{"name": "v", "id": 1, "type": ("arr", ("u", 8), 2)}, {"name": "w", "id": 0, "type": ("u", 3)}]},
    ]
    sch = S.Sch(decls)
    problems = []
    for name, unroll, want in [
        ("A", False, [("s1", 0, 32), ("s2", 32, 16)]),
        ("B", False, [("s1::s1", 0, 32), ("s1::s2", 32, 16), ("s2", 48, 8)]),
        ("C", True, [("w", 0, 3), ("v_0", 3, 8), ("v_1", 11, 8)]),
        ("C", False, [("w", 0, 3), ("v", 3, 16)]),
    ]:
        got = [(n, st, w) for n, st, w, _, _ in layout(sch, name, unroll)]
        if got != want:
            problems.append("layout self-check %s: %r != %r" % (name, got, want))
    return problems
