"""Pack / unpack leaf values into a CAN payload at a given bit layout.
Little-endian bit packing; a byte-aligned whole-byte big-endian leaf has its
bytes reversed in place.  No fcp imports."""

import struct as _st


def leaf_bits(t, v, sch=None):
    k = t[0]
    if k == "u" or k == "enum":
        return v
    if k == "i":
        return v & ((1 << t[1]) - 1)
    if k == "f32":
        return _st.unpack("<I", _st.pack("<f", v))[0]
    if k == "f64":
        return _st.unpack("<Q", _st.pack("<d", v))[0]
    raise ValueError(t)


def bits_leaf(t, b, width):
    k = t[0]
    if k == "u" or k == "enum":
        return b
    if k == "i":
        return b - (1 << width) if b >> (width - 1) else b
    if k == "f32":
        return _st.unpack("<f", _st.pack("<I", b))[0]
    if k == "f64":
        return _st.unpack("<d", _st.pack("<Q", b))[0]
    raise ValueError(t)


def _swap(b, width):
    return int.from_bytes(b.to_bytes(width // 8, "little"), "big")


def pack(leaves, values, nbytes=None):
    """leaves: [(name, bitstart, bitlength, type, big_endian)], values: {name: value}."""
    acc = 0
    end = 0
    for name, start, width, t, big in leaves:
        b = leaf_bits(t, values[name]) & ((1 << width) - 1)
        if big:
            if start % 8 or width % 8:
                raise ValueError("big endian leaf must be byte aligned")
            b = _swap(b, width)
        acc |= b << start
        end = max(end, start + width)
    n = (end + 7) // 8 if nbytes is None else nbytes
    return acc.to_bytes(n, "little")


def unpack(leaves, data):
    acc = int.from_bytes(data, "little")
    out = {}
    for name, start, width, t, big in leaves:
        b = (acc >> start) & ((1 << width) - 1)
        if big:
            b = _swap(b, width)
        out[name] = bits_leaf(t, b, width)
    return out
