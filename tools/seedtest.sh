#!/bin/sh
# tools/seedtest.sh <dir with patch.diff [demo.py]> <check id>...
# Confirms a seeded change in a scratch worktree (never in /repo): existing tests still pass, the
# demonstration passes without and fails with the change, then runs the given checks against it.
set -u
D="$(cd "$1" && pwd)"; shift
WT=${SEED_WT:-/tmp/wt-seedtest}
if [ ! -d "$WT" ]; then git -C /repo worktree add -q --detach "$WT" HEAD || exit 2; fi
git -C "$WT" checkout -q --detach "$(git -C /repo rev-parse HEAD)" && git -C "$WT" checkout -q -- . && git -C "$WT" clean -fdq
PP="$WT/src:$WT/plugins/fcp_dbc:$WT/plugins/fcp_can_c:$WT/plugins/fcp_cpp:$WT/plugins/fcp_nop"
if [ -f "$D/demo.py" ] && [ "${SKIP_DEMO:-0}" != "1" ]; then
  (cd "$WT" && sed "s#/tmp/seed/C[0-9][0-9]#$WT#g" "$D/demo.py" > /tmp/seedtest_demo_$(basename $WT).py && PYTHONPATH="$PP" timeout 600 /venv/bin/python /tmp/seedtest_demo_$(basename $WT).py >/tmp/seedtest_demo_clean_$(basename $WT).log 2>&1); echo "demo on clean tree: exit $?"
fi
git -C "$WT" apply "$D/patch.diff" || { echo "PATCH DOES NOT APPLY"; exit 2; }
git -C "$WT" diff --stat | tail -1
if [ "${SKIP_TESTS:-0}" != "1" ]; then
  (cd "$WT" && PYTHONPATH="$PP" /venv/bin/python -m pytest -q -p no:cacheprovider -x --deselect plugins/fcp_cpp 2>&1 | tail -1)
fi
if [ -f "$D/demo.py" ] && [ "${SKIP_DEMO:-0}" != "1" ]; then
  (cd "$WT" && PYTHONPATH="$PP" timeout 600 /venv/bin/python /tmp/seedtest_demo_$(basename $WT).py >/tmp/seedtest_demo_mut_$(basename $WT).log 2>&1); echo "demo on changed tree: exit $?"
fi
for id in "$@"; do
  out=$(cd /verif && VERIF_REPO="$WT" ./check "$id" --tier "${TIER:-quick}" 2>&1); rc=$?
  echo "$id rc=$rc $(echo "$out" | grep -E '^(HELD|VIOLATION|INCONCLUSIVE)' | tail -1 | cut -c1-160)"
  echo "$out" | grep -E "violation:" | head -2 | cut -c1-300
done
git -C "$WT" checkout -q -- . && git -C "$WT" clean -fdq
