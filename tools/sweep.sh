#!/bin/sh
# tools/sweep.sh <tier> <seed>...   - runs every check of MANIFEST.json for the given seeds, prints non-HELD results
cd "$(dirname "$0")/.." || exit 2
TIER="$1"; shift
for seed in "$@"; do
  for id in $(/venv/bin/python -c "import json; print(' '.join(c['property_id'] for c in json.load(open('MANIFEST.json'))['checks']))"); do
    out=$(VERIF_SEED=$seed ./check $id --tier $TIER 2>&1); rc=$?
    last=$(echo "$out" | grep -E "^(HELD|VIOLATION|INCONCLUSIVE)" | tail -1 | cut -c1-220)
    echo "seed=$seed $id rc=$rc $last"
    if [ $rc -ne 0 ]; then echo "$out" | grep -E "violation:|INCONCLUSIVE" | head -3 | cut -c1-400; fi
  done
done
