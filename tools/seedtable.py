#!/venv/bin/python
"""Prints the markdown table of DESIGN.md section 11 from seeded/*/meta.json."""
import json, os, re
V = os.path.dirname(os.path.dirname(os.path.abspath(__file__)))
print("| seeded change | property | needs, to manifest | caught by (quick tier) | missed at first? |")
print("|---|---|---|---|---|")
for sid in sorted(os.listdir(os.path.join(V, "seeded"))):
    m = json.load(open(os.path.join(V, "seeded", sid, "meta.json")))
    note = m.get("note", "")
    mm = re.search(r"missed(?: by \w+)? at first[:;]?\s*(.*)", note, re.I | re.S)
    missed = ("yes - " + mm.group(1).strip()) if mm else note
    print("| `%s` | %s | %s | %s | %s |" % (sid, m["breaks_property"], m["needs_to_manifest"].replace("|", "/"), ", ".join(m["caught_by_quick_checks"]), missed.replace("|", "/")))
