#!/venv/bin/python
"""tools/seedrecheck.py [seed id ...]  - fast re-confirmation after the checks have changed: applies each kept change in
the scratch worktree $SEED_WT and runs the quick check of its property (and, when that one holds, the other checks listed
as catching it).  Records meta.json["recheck"]; prints the changes NO listed check reports any more."""
import json, os, subprocess, sys

VERIF = os.path.dirname(os.path.dirname(os.path.abspath(__file__)))
WT = os.environ.get("SEED_WT", "/tmp/wt-seedtest")


def sh(cmd):
    return subprocess.run(cmd, shell=True, capture_output=True, text=True)


head = sh("git -C /repo rev-parse HEAD").stdout.strip()
if not os.path.isdir(WT):
    sh("git -C /repo worktree add -q --detach %s HEAD" % WT)
ids = sys.argv[1:] or sorted(os.listdir(os.path.join(VERIF, "seeded")))
for sid in ids:
    d = os.path.join(VERIF, "seeded", sid)
    meta = json.load(open(os.path.join(d, "meta.json")))
    sh("git -C %s checkout -q --detach %s && git -C %s checkout -q -- . && git -C %s clean -fdqx" % (WT, head, WT, WT))
    if sh("git -C %s apply %s" % (WT, os.path.join(d, "patch.diff"))).returncode != 0:
        print(sid, "PATCH DOES NOT APPLY", flush=True)
        continue
    order = [meta["breaks_property"]] + [c for c in meta.get("caught_by_quick_checks", []) if c != meta["breaks_property"]]
    res = {}
    for c in order:
        p = subprocess.run(["./check", c, "--tier", "quick"], cwd=VERIF, env=dict(os.environ, VERIF_REPO=WT), capture_output=True, text=True)
        res[c] = p.returncode
        if p.returncode == 1:
            break
    meta["recheck"] = {"repo_head": head[:7], "verif_commit": sh("git -C %s rev-parse --short HEAD" % VERIF).stdout.strip(), "quick_checks": res}
    json.dump(meta, open(os.path.join(d, "meta.json"), "w"), indent=1)
    print(sid, res, "" if 1 in res.values() else "<<< NOT CAUGHT", flush=True)
sh("git -C %s checkout -q -- . && git -C %s clean -fdqx" % (WT, WT))
