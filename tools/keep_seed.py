#!/venv/bin/python
"""tools/keep_seed.py <src dir> <seed id> <property> <caught-by comma list> <needs text> [note]
Copies patch.diff / demo.py / notes.md into /verif/seeded/<seed id>/ and writes meta.json."""
import json, os, shutil, sys, subprocess

src, sid, prop, caught, needs = sys.argv[1:6]
note = sys.argv[6] if len(sys.argv) > 6 else ""
dst = os.path.join(os.path.dirname(os.path.dirname(os.path.abspath(__file__))), "seeded", sid)
os.makedirs(dst, exist_ok=True)
for f in ("patch.diff", "demo.py", "notes.md"):
    if os.path.exists(os.path.join(src, f)):
        shutil.copy(os.path.join(src, f), os.path.join(dst, f))
head = subprocess.check_output(["git", "-C", "/repo", "rev-parse", "--short", "HEAD"], text=True).strip()
meta = {
    "seed": sid,
    "breaks_property": prop,
    "needs_to_manifest": needs,
    "source": "fresh sub-agent given only the property text and a scratch worktree of /repo",
    "confirmed": {
        "repo_head": head,
        "how": "tools/seedtest.sh (scratch worktree, never /repo): demo.py exits 0 on the clean tree; patch applies; the repository's 172 tests (C++ gtest ones deselected) pass with it; demo.py exits non-zero with it",
    },
    "caught_by_quick_checks": [c for c in caught.split(",") if c],
    "note": note,
}
json.dump(meta, open(os.path.join(dst, "meta.json"), "w"), indent=1)
print("kept", dst)
