#!/bin/sh
# tools/wave_try.sh <Cxx> <suffix> [extra check ids...]  - confirms /tmp/seedout/<Cxx><suffix>{a,b} and runs <Cxx> (+ extra) against each
P="$1"; S="$2"; shift 2
cd "$(dirname "$0")/.." || exit 2
mkdir -p /tmp/wavelog
for k in a b; do
  d=/tmp/seedout/$P$S$k
  [ -f $d/patch.diff ] || { echo "no $d"; continue; }
  SEED_WT=/tmp/wt-$P tools/seedtest.sh $d $P "$@" > /tmp/wavelog/$P$S$k.log 2>&1
done
git -C /repo worktree remove --force /tmp/wt-$P 2>/dev/null
echo done $P
