#!/venv/bin/python
"""tools/design_table.py - replaces the seeded-change table of DESIGN.md section 11 by the output of tools/seedtable.py."""
import os, re, subprocess
V = os.path.dirname(os.path.dirname(os.path.abspath(__file__)))
p = os.path.join(V, "DESIGN.md")
s = open(p).read()
table = subprocess.check_output([os.path.join(V, "tools", "seedtable.py")], text=True).rstrip("\n")
start = s.index("| seeded change | property | needs, to manifest |")
end = s.index("\n\n", start)
open(p, "w").write(s[:start] + table + s[end:])
print("table rows:", table.count("\n") - 1)
