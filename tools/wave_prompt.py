#!/venv/bin/python
"""tools/wave_prompt.py <Cxx> [<suffix>]  - prepares a scratch worktree /tmp/seed/<Cxx> of /repo HEAD and an
output directory /tmp/seedout/<Cxx><suffix>/, and prints the prompt for a fresh seeding sub-agent: the text of the
property, the titles of earlier changes (directions to stay away from) - nothing about how the checks work."""
import json, os, subprocess, sys

V = os.path.dirname(os.path.dirname(os.path.abspath(__file__)))
pid = sys.argv[1]
suffix = sys.argv[2] if len(sys.argv) > 2 else ""
prop = next(json.loads(l) for l in open(os.path.join(V, "properties.jsonl")) if json.loads(l)["id"] == pid)
wt = f"/tmp/seed/{pid}"
out = f"/tmp/seedout/{pid}{suffix}"
os.makedirs("/tmp/seed", exist_ok=True)
os.makedirs(out, exist_ok=True)
if not os.path.isdir(wt):
    subprocess.check_call(["git", "-C", "/repo", "worktree", "add", "-q", "--detach", wt, "HEAD"])
earlier = []
for d in sorted(os.listdir(os.path.join(V, "seeded"))):
    if d.startswith(pid + "-"):
        m = json.load(open(os.path.join(V, "seeded", d, "meta.json")))
        earlier.append(f"- {d[4:]}: {m['needs_to_manifest']}")
text = f"""You are helping to evaluate how well a verification harness guards a semantic property of an open-source
project. Your job: write TWO independent, realistic, small changes (bugs) to the project that BREAK the property
below while the project still imports/compiles and its existing test suite still passes, and a demonstration
for each.

Project: joajfreitas/fcp-core (FCP: a Lark-based interface description language for CAN/serialization, with a
schema verifier, bit-packed encoder, Python serde codec and C/C++/DBC code-generator plug-ins).  Your private
scratch git worktree of it is {wt} (work ONLY there; never touch /repo or /verif, and do not read /verif).
Python: /venv/bin/python (has the project's dependencies; `fcp` resolves to an editable install of another
checkout, so ALWAYS run with
PYTHONPATH={wt}/src:{wt}/plugins/fcp_dbc:{wt}/plugins/fcp_can_c:{wt}/plugins/fcp_cpp:{wt}/plugins/fcp_nop
so that your worktree's code is what gets imported).  Existing tests:
cd {wt} && PYTHONPATH=<as above> /venv/bin/python -m pytest -q -p no:cacheprovider --deselect plugins/fcp_cpp
(172 pass on the unchanged tree).  gcc and clang++ are installed; generated C++ needs
-I/verif/third_party (nlohmann/json) - that one include path is the only thing you may use from /verif.
No network.

The property ({pid}): {prop['title']}
Statement: {prop['statement']}
Quantified over: {prop['quantifier']['text']}
Code it is anchored in: {', '.join(prop['anchors']['files'])}
Observed at: {'; '.join(prop['anchors']['observe_at'])}

What makes a good change:
* It looks like something a maintainer could plausibly commit (an optimisation, a refactoring, a cache, a
  "simplification", a tidy-up of an edge case, a convenience feature), 3-40 changed lines, not sabotage.
* It needs something SPECIFIC to manifest: an unusual input class, a multi-step sequence of operations in one
  process, a particular history on a long-lived object, a fault at a particular point, or two cooperating
  sites that each look fine alone.  Ordinary use (and the existing tests) must not expose it at once.
* It really breaks the property as worded (read the statement carefully), not a neighbouring one.
* The two changes must be independent of each other (different mechanisms) and each apply on its own to a
  clean checkout.

Directions that were already taken by earlier changes for this property - stay away from these and from close
variants; find NEW mechanisms and NEW triggers:
{chr(10).join(earlier) if earlier else '(none yet)'}

Deliver, for change k in {{a, b}}, in {out}{{k}}/ (create the directories {out}a and {out}b):
* patch.diff  - `git diff` of the change against the clean worktree (apply-able with `git apply` from the
  worktree root; only files of the project),
* demo.py     - a self-contained program that exits 0 on the clean tree and non-zero (with a short message saying
  what went wrong) with the change applied; it is run as `cd {wt} && PYTHONPATH=<as above> /venv/bin/python demo.py`;
  refer to the worktree only as {wt} (the path is rewritten when I re-run it elsewhere); write scratch files under
  a tempfile.mkdtemp() directory and remove them,
* notes.md    - 5-15 lines: what the change is (title on the first line), why it breaks the property, exactly what
  is needed for it to manifest, and why the existing tests do not see it.
Before you finish, for each change verify yourself: clean tree -> demo exits 0; apply patch -> existing tests pass
(same count) and demo exits non-zero; then `git checkout -- . && git clean -fdq` (never `git stash`: the stash is shared with other worktrees) so the worktree is clean again
between the two changes and at the end.  Report back in a few lines: the two titles, what each needs to
manifest, and the test/demonstration results you observed.
"""
print(text)
