#!/venv/bin/python
"""tools/seedmatrix.py [seed id ...]  - re-confirms every kept seeded change against the current
/repo HEAD in the scratch worktree /tmp/wt-seedtest and records, in seeded/<id>/meta.json, the
exit status of its demonstration (clean / changed tree), of the repository's tests with the change,
and of each relevant quick check (1 = VIOLATION reported = caught)."""
import json, os, re, subprocess, sys

VERIF = os.path.dirname(os.path.dirname(os.path.abspath(__file__)))
WT = os.environ.get("SEED_WT", "/tmp/wt-seedtest")
PP = ":".join("%s/%s" % (WT, p) for p in ("src", "plugins/fcp_dbc", "plugins/fcp_can_c", "plugins/fcp_cpp", "plugins/fcp_nop"))


def sh(cmd, **kw):
    return subprocess.run(cmd, shell=True, capture_output=True, text=True, **kw)


def reset():
    head = sh("git -C /repo rev-parse HEAD").stdout.strip()
    if not os.path.isdir(WT):
        sh("git -C /repo worktree add -q --detach %s HEAD" % WT)
    sh("git -C %s checkout -q --detach %s && git -C %s checkout -q -- . && git -C %s clean -fdqx" % (WT, head, WT, WT))
    return head


def demo(d):
    src = open(os.path.join(d, "demo.py")).read()
    src = re.sub(r"/tmp/seed/C\d\d", WT, src)
    open("/tmp/seedmatrix_demo_%s.py" % os.path.basename(WT), "w").write(src)
    env = dict(os.environ, PYTHONPATH=PP)
    try:
        return subprocess.run(["/venv/bin/python", "/tmp/seedmatrix_demo_%s.py" % os.path.basename(WT)], cwd=WT, env=env, capture_output=True, text=True, timeout=900).returncode
    except subprocess.TimeoutExpired:
        return "timeout"


ids = sys.argv[1:] or sorted(os.listdir(os.path.join(VERIF, "seeded")))
for sid in ids:
    d = os.path.join(VERIF, "seeded", sid)
    meta = json.load(open(os.path.join(d, "meta.json")))
    head = reset()
    res = {"repo_head": head[:7]}
    res["demo_clean"] = demo(d)
    a = sh("git -C %s apply %s" % (WT, os.path.join(d, "patch.diff")))
    if a.returncode != 0:
        res["patch"] = "does not apply: " + a.stderr[:200]
        meta["matrix"] = res
        json.dump(meta, open(os.path.join(d, "meta.json"), "w"), indent=1)
        print(sid, res)
        continue
    t = subprocess.run("rm -rf .hypothesis; /venv/bin/python -m pytest -q -p no:cacheprovider --deselect plugins/fcp_cpp 2>&1 | tail -1; rm -rf .hypothesis", shell=True, cwd=WT, env=dict(os.environ, PYTHONPATH=PP), capture_output=True, text=True)
    res["existing_tests_with_change"] = t.stdout.strip()
    res["demo_changed"] = demo(d)
    checks = sorted(set(meta["caught_by_quick_checks"]) | {meta["breaks_property"]})
    res["quick_checks"] = {}
    for c in checks:
        p = subprocess.run(["./check", c, "--tier", "quick"], cwd=VERIF, env=dict(os.environ, VERIF_REPO=WT), capture_output=True, text=True)
        first = [l.strip() for l in p.stdout.split("\n") if l.strip().startswith("violation:")][:1]
        res["quick_checks"][c] = {"exit": p.returncode, "first_violation": (first[0][:240] if first else None)}
    meta["matrix"] = res
    meta["caught_by_quick_checks"] = sorted(c for c, v in res["quick_checks"].items() if v["exit"] == 1)
    json.dump(meta, open(os.path.join(d, "meta.json"), "w"), indent=1)
    print(sid, res["demo_clean"], res["demo_changed"], res["existing_tests_with_change"][:20], {c: v["exit"] for c, v in res["quick_checks"].items()}, flush=True)
reset()
