#!/bin/sh
# Offline set-up: nothing to install (the checks use /venv/bin/python, the repository's own
# interpreter, and only the standard library on top of it); verify the tool chain is present.
set -e
cd "$(dirname "$0")"
/venv/bin/python -c "import sys; assert sys.version_info >= (3, 12), sys.version; import lark, serde, beartype, jinja2, cantools"
command -v gcc >/dev/null
command -v clang++ >/dev/null
mkdir -p out evidence
echo "setup ok"
